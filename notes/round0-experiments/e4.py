from gen import *
import asyncio, httpx, json
from graphql import build_schema, graphql_sync
schema = '''
interface Node { id: ID! }
interface Named { name: String! }
type User implements Node & Named { id: ID! name: String! email: String }
type Bot implements Node { id: ID! model: String! }
union SR = User | Bot
type Query { node: Node! user(q: String): User search(q: String): [SR!]! nodes: [Node]! }
'''
def run(title, q, root=None, variables=None, call=None):
    print("===", title)
    d, n, r = generate(schema, q)
    if r.exception: show(r); return
    try: m = load(d, n)
    except Exception as e: print("LOAD FAIL", type(e).__name__, str(e)[:300]); return
    gs = build_schema(schema)
    class Root: pass
    rv = root or {"node": {"__typename":"User","id":"1","name":"n","email":None}, "user": {"id":"1","name":"n","email":"e"},
          "search":[{"__typename":"User","id":"1","name":"n"},{"__typename":"Bot","id":"2","model":"m"}], "nodes":[None,{"__typename":"Bot","id":"2","model":"m"}]}
    def handler(request):
        body = json.loads(request.content)
        from graphql import default_type_resolver
        res = graphql_sync(gs, body["query"], root_value=rv, variable_values=body.get("variables"), operation_name=body.get("operationName"))
        out = {"data": res.data}
        if res.errors: out["errors"] = [e.formatted for e in res.errors]
        return httpx.Response(200, json=out)
    async def go():
        c = m.Client(url="http://x", http_client=httpx.AsyncClient(transport=httpx.MockTransport(handler)))
        try:
            res = await call(c)
            print("OK", repr(res)[:300]); print("  dump", res.model_dump(by_alias=True))
        except Exception as e:
            print("CALL FAIL", type(e).__name__, str(e)[:400])
    asyncio.run(go())

run("E4 inline fragment w/o type condition", 'query A($x: Boolean!) { user { ... @include(if: $x) { name } id } }', call=lambda c: c.a(x=False))
run("E5 inline fragment with include on type cond", 'query A($x: Boolean!) { node { id ... on User @include(if: $x) { name } } }', call=lambda c: c.a(x=False))
run("E5b fragment spread with skip", 'fragment F on User { name } query A($x: Boolean!) { user { id ...F @skip(if: $x) } }', call=lambda c: c.a(x=True))
run("E5c inline fragment on other interface", 'query A { node { id ... on Named { name } } }', call=lambda c: c.a())
run("E5d inline fragment on same interface", 'query A { node { ... on Node { id } } }', call=lambda c: c.a())
run("E5e merged selections", 'query A { user { id } user { name } }', call=lambda c: c.a())
run("E5f list of nullable interface", 'query A { nodes { id ... on Bot { model } } }', call=lambda c: c.a())
run("E5g typename alias", 'query A { node { t: __typename id } }', call=lambda c: c.a())
run("E5h union w/ interface frag", 'query A { search { ... on Node { id } ... on Named { name } } }', call=lambda c: c.a())
