"""C12 -- every HTTP response is classified into exactly one documented outcome.

leg 1: TLC checks HttpOutcome (decision chain vs the documented table) exhaustively.
leg 2: TLC exports every cell (status x body class) with the predicted outcome; each cell is driven through
       get_data of the four bundled base clients (as copied into freshly generated packages) and through a
       generated method.
leg 3: the recorded event traces (is_success read, json() call, outcome with attributes) are validated by
       HttpOutcome_Trace; a trace TLC cannot explain is a violation.
"""
import json

from ..common import Verdict, run_tlc, tlc_must_pass, validate_traces, pmap, Machinery
from ..gen import write_job, generate, run_in_pkg

SCHEMA = """
type Query { item(id: ID): Item }
type Item { id: ID! name: String }
"""
QUERY = "query GetItem { item { id name } }\n"

CLIENTS = [
    ("async_plain", {"async_client": True, "opentelemetry_client": False}),
    ("sync_plain", {"async_client": False, "opentelemetry_client": False}),
    ("async_otel", {"async_client": True, "opentelemetry_client": True}),
    ("sync_otel", {"async_client": False, "opentelemetry_client": True}),
]


def run(tier, work, replay=None):
    v = Verdict("C12", tier)
    out = work.dir / "cases.json"
    res = run_tlc("HttpOutcome_MC", "HttpOutcome_MC.cfg", work.sub("tlc"), env={"OUT_FILE": str(out), "STATUSES": "some" if tier == "quick" else "all"}, coverage=True)
    tlc_must_pass(res, "HttpOutcome_MC")
    v.add_tlc(res, "HttpOutcome_MC exhaustive")
    for act in ("CheckStatus", "ParseJson", "CheckShape", "CheckErrors", "ReturnData"):
        if res.coverage.get(f"HttpOutcome!{act}", (0, 0))[1] == 0:
            raise Machinery(f"vacuous: action {act} never taken")
    cases = json.loads(out.read_text())
    if replay:
        rp = json.loads(open(replay).read())
        keep = {json.dumps([r["features"].get("status"), r["features"].get("body")], sort_keys=True) for r in rp}
        cases = [c for c in cases if json.dumps([c["status"], c["body"]], sort_keys=True) in keep] or cases
    # the generated method is driven on every body class for a covering set of statuses (quick) / all (thorough)
    mstat = {200, 204, 404, 500} if tier == "quick" else {100, 199, 200, 201, 204, 299, 300, 301, 400, 401, 404, 500, 503}
    method_cases = [c for c in cases if mstat is None or c["status"] in mstat]

    def one(cl):
        name, opts = cl
        job = write_job(work.dir / f"job_{name}", schema=SCHEMA, queries=QUERY, package="gclient", options=opts)
        r = generate(job)
        if r["exc_class"]:
            return name, None, r
        o = run_in_pkg(job, "harness.pkg.c12", {"package": "gclient", "async": opts["async_client"],
                                                "client": name, "cases": cases, "method_cases": method_cases})
        return name, o["traces"], r

    results = pmap(one, CLIENTS)
    traces = []
    for name, trs, r in results:
        if trs is None:
            v.violation({"client": name, "stage": "generate"}, f"gen_crash:{r['exc_class']}", r["exc_msg"])
            continue
        traces.extend(trs)
    v.cov["evaluations"] = len(traces)
    from ..common import validate_traces_parallel
    rs_, rejected, inv = validate_traces_parallel("HttpOutcome_Trace", "HttpOutcome_Trace.cfg", traces, work.sub("tv"), chunk_size=8000)
    for tres in rs_:
        v.add_tlc(tres, "HttpOutcome_Trace")
    bad = set(rejected) | {t for _, t in inv if t is not None}
    for t in sorted(bad):
        tr = traces[t]
        call = tr[0]
        last = tr[-1]
        why = [i for i, tt in inv if tt == t]
        v.violation({"client": call["client"], "via": call["via"], "status": call["status"], "body": call["body"]},
                    f"trace_rejected:{last.get('kind')}" + (":" + ",".join(why) if why else ""),
                    {"trace": tr, "matched_prefix": rejected.get(t)})
    for i, _t in inv:
        if _t is None:
            v.violation({}, f"invariant:{i}", "invariant violated in trace validation")
    v.cov["traces_validated_against_impl"] = len(traces) - len(bad)
    distinct = {json.dumps([t[0]["status"], t[0]["body"]], sort_keys=True) for t in traces}
    v.cov["distinct_nontrivial"] = len(distinct)
    v.cov["rule"] = ("cells = status x body class enumerated by TLC from HttpOutcome!Responses; every cell counted once "
                     "(finite table); each driven on 4 clients via get_data and on a subset via a generated method")
    v.cov["exhaustive"] = True
    v.cov["tlc_coverage"] = {k: list(x) for k, x in res.coverage.items() if k.startswith("HttpOutcome!")}
    for t in (traces[0], traces[len(traces) // 2], traces[-1]):
        v.sample(t)
    v.assumptions += ["httpx.Response.json()/is_success behave as documented", "errors members are spec-shaped lists of objects with message",
                      "bodies with data null/absent and no errors: the generated method raises pydantic ValidationError (observed, judged only as 'no typed object is returned')"]
    return v.finish()
