"""C05 -- result models are as strict as the schema.

leg 1: ResultModel (TLC) -- Corrupt x Respond x DoValidate on the ideal image: RejectsCorruption, AnnotationIsImage.
leg 2: every conformant payload obtained for the enumerated operations is corrupted at every single point (null at a
       non-null position, an unconditional key removed, a value replaced by another JSON kind, __typename replaced by an
       unknown / impossible type) and the real generated model must raise ValidationError.
leg 3(b): the projected classes are checked by ResultModel_Trace: RejectsCorruption over all abstract responses of the
       artifact and AnnotationIsImage (Optional iff nullable or conditional, List iff list, kind image) for every field.
"""
import json

from ..common import Verdict, Machinery, seed
from .. import resultcore as rc
from ..universe import gamma
from .c01 import plan

C05_ARTIFACT = ("RejectsCorruption", "AnnotationIsImage", "RootImage")


def run(tier, work, replay=None):
    v = Verdict("C05", tier)
    q = tier == "quick"
    ops = plan(tier, work, v)
    items = rc.name_ops(ops)
    options = {"async_client": False}
    good, failed = rc.generate_batches(work, items, options, tag="c5_")
    gen_failed = {it["name"] for it, _ in failed}
    recs = rc.drive_batches(good, is_async=False, quick=True, corrupt=True, work=work, options=options)
    n_corr = 0
    distinct = set()
    for it in items:
        rec = recs.get(it["name"])
        if not rec or rec.get("error"):
            continue      # generation / load problems are C04's and C01's business
        feats0 = gamma.features(it["op"])
        seen = set()
        for c in rec["corruptions"]:
            if c.get("kind") == "machinery":
                raise Machinery(f"corruption walker failed on {it['name']}: {c['error']}")
            n_corr += 1
            distinct.add((c["kind"], c["feat"]["declared"], c["feat"]["replacement"]))
            if c["rejected"] is True:
                continue
            pair = f"{c['feat']['declared']}<-{c['feat']['replacement']}"
            key = (c["kind"], pair)
            if key in seen:
                continue
            seen.add(key)
            feats = dict(feats0, pair=pair, kind=c["kind"])
            v.violation(feats, f"accepts:{c['kind']}", {"operation": gamma.render_op(it["name"], it["op"]), "path": c["path"],
                                                        "runtime_type": c["t"], "outcome": c["rejected"]})
    traces, owners = rc.artifact_traces(items, recs)
    rs, failed_art = rc.validate_artifacts(work, traces, chunk=120)
    for r in rs:
        v.add_tlc(r, "ResultModel_Trace (artifact)")
    bad = 0
    for k, wit in failed_art.items():
        it = owners[k]
        mine = [w for w in wit if w[0] in C05_ARTIFACT]
        if not mine:
            continue
        bad += 1
        names = sorted({w[0] + (":" + w[3] if w[0] == "RejectsCorruption" else "") for w in mine})
        for nm in names:
            v.violation(dict(gamma.features(it["op"]), kind="artifact"), "artifact:" + nm,
                        {"operation": gamma.render_op(it["name"], it["op"]), "witnesses": mine[:6],
                         "projected_model": recs[it["name"]]["model"]})
    v.cov["evaluations"] = n_corr
    v.cov["traces_validated_against_impl"] = len(traces) - bad
    v.cov["distinct_nontrivial"] = len([1 for op in ops if gamma.nontrivial(op)])
    v.cov["distinct_corruption_classes"] = len(distinct)
    v.cov["operations"] = len(ops)
    v.cov["rule"] = ("every single-point corruption (null at non-null, unconditional key removed, value replaced by each other "
                     "JSON kind, __typename unknown/impossible) of one conformant payload per (operation, runtime type); operations "
                     "enumerated by TLC as in C01; non-trivial = abstract position, fragment, directive, alias or nested selection")
    v.cov["exhaustive"] = not q
    for it in (items[0], items[len(items) // 2], items[-1]):
        rec = recs.get(it["name"]) or {}
        v.sample({"operation": gamma.render_op(it["name"], it["op"]), "corruptions_tried": len(rec.get("corruptions", [])),
                  "examples": rec.get("corruptions", [])[:3]})
    v.assumptions += ["pydantic ValidationError is the validation error of the statement",
                      "an int where the schema says Float is not a kind change (GraphQL Float admits integers)"]
    return v.finish()
