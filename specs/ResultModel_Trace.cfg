SPECIFICATION TraceSpec
CONSTANTS MaxAtoms = 3
 Nested = TRUE
 Roots <- TraceRoots
CONSTRAINT Judge
POSTCONDITION Report
CHECK_DEADLOCK FALSE
