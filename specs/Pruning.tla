------------------------------- MODULE Pruning -------------------------------
(* C09 (and the phase order behind C04 / C17): PackageGenerator.generate() as a sequence of phases that fill and read    *)
(* accumulators.  The used-enums list is filled by four different generators in a fixed call order and READ by            *)
(* _generate_enums; used inputs are collected by the arguments generator while operations are added and closed by a DFS. *)
EXTENDS Naturals, Sequences, FiniteSets, TLC, FiniteSetsExt, SequencesExt

CONSTANTS NIn, NEn,          \* input object types In1..  and enums E1..
          MaxOps,
          FlagSets,          \* set of [allInputs : BOOLEAN, allEnums : BOOLEAN] configurations explored
          PhaseOrders        \* the orders in which generate() may run its phases ({CodeOrder}, a deviation, or - in the
                             \* trace spec - whatever order was observed)

Inputs == 1..NIn
Enums == 1..NEn
\* an operation: input types and enums used directly as variable types, enums selected in its result fields,
\* enums selected through the named fragment it spreads (generated into the fragments module)
OpRecs == [varIn : SUBSET Inputs, varEn : SUBSET Enums, resEn : SUBSET Enums, fragEn : SUBSET Enums]

CodeOrder == <<"inputs", "results", "fragments", "copy", "client", "enums", "init">>

VARIABLES deps,        \* schema: input -> inputs its fields refer to (any digraph: chains, cycles, self references)
          inEnums,     \* schema: input -> enums its fields use (also "used only in a default value")
          ops, flags,  \* the operations (in file order) and the two include_all_* flags
          porder,      \* the phase order of this run
          added,       \* operations processed by add_operation
          pc,          \* index of the next phase of generate(), 0 while operations are being added
          usedInputs,  \* arguments_generator._used_inputs
          argEnums,    \* arguments_generator._used_enums
          usedEnums,   \* PackageGenerator._used_enums
          written      \* what each phase wrote: [inputs, enums : sets or "none"], imports of each module
vars == <<deps, inEnums, ops, flags, porder, added, pc, usedInputs, argEnums, usedEnums, written>>

NotWritten == {0}            \* sentinel: 0 is neither an input nor an enum
Init ==
  /\ deps \in [Inputs -> SUBSET Inputs] /\ inEnums \in [Inputs -> SUBSET Enums]
  /\ ops \in UNION {[1..n -> OpRecs] : n \in 0..MaxOps}
  /\ flags \in FlagSets /\ porder \in PhaseOrders
  /\ added = 0 /\ pc = 0 /\ usedInputs = {} /\ argEnums = {} /\ usedEnums = {}
  /\ written = [inputs |-> NotWritten, enums |-> NotWritten, inputImports |-> {}, clientEnumImports |-> {},
                clientInputImports |-> {}, resultEnumImports |-> {}, fragmentEnumImports |-> {}]

\* PackageGenerator.add_operation: result enums are collected at once; the arguments generator records the variable
\* types when the client method is added
AddOperation ==
  /\ pc = 0 /\ added < Len(ops)
  /\ LET o == ops[added + 1] IN
     /\ usedEnums' = usedEnums \cup o.resEn
     /\ usedInputs' = usedInputs \cup o.varIn
     /\ argEnums' = argEnums \cup o.varEn
     /\ written' = [written EXCEPT !.resultEnumImports = @ \cup o.resEn, !.clientEnumImports = @ \cup o.varEn,
                                   !.clientInputImports = @ \cup o.varIn, !.fragmentEnumImports = @ \cup o.fragEn]
  /\ added' = added + 1
  /\ UNCHANGED <<deps, inEnums, ops, flags, porder, pc>>

StartGenerate == /\ pc = 0 /\ added = Len(ops) /\ pc' = 1
                 /\ UNCHANGED <<deps, inEnums, ops, flags, porder, added, usedInputs, argEnums, usedEnums, written>>

\* InputTypesGenerator._get_dependencies_of_type: DFS closure
RECURSIVE Closure(_, _)
Closure(D, S) == LET more == UNION {D[i] : i \in S} \ S IN IF more = {} THEN S ELSE Closure(D, S \cup more)

Phase(name) == pc \in 1..Len(porder) /\ porder[pc] = name /\ pc' = pc + 1

GenInputs ==
  /\ Phase("inputs")
  /\ LET kept == IF flags.allInputs THEN Inputs ELSE Closure(deps, usedInputs) IN
     /\ written' = [written EXCEPT !.inputs = kept, !.inputImports = UNION {inEnums[i] : i \in kept}]
     /\ usedEnums' = usedEnums \cup UNION {inEnums[i] : i \in kept}
  /\ UNCHANGED <<deps, inEnums, ops, flags, porder, added, usedInputs, argEnums>>
GenResults == Phase("results") /\ UNCHANGED <<deps, inEnums, ops, flags, porder, added, usedInputs, argEnums, usedEnums, written>>
GenFragments ==
  /\ Phase("fragments")
  /\ usedEnums' = usedEnums \cup written.fragmentEnumImports
  /\ UNCHANGED <<deps, inEnums, ops, flags, porder, added, usedInputs, argEnums, written>>
CopyFiles == Phase("copy") /\ UNCHANGED <<deps, inEnums, ops, flags, porder, added, usedInputs, argEnums, usedEnums, written>>
GenClient ==
  /\ Phase("client")
  /\ usedEnums' = usedEnums \cup argEnums
  /\ UNCHANGED <<deps, inEnums, ops, flags, porder, added, usedInputs, argEnums, written>>
\* EnumsGenerator.generate(types_to_include = used enums AS OF NOW)
GenEnums ==
  /\ Phase("enums")
  /\ written' = [written EXCEPT !.enums = IF flags.allEnums THEN Enums ELSE usedEnums]
  /\ UNCHANGED <<deps, inEnums, ops, flags, porder, added, usedInputs, argEnums, usedEnums>>
GenInit == Phase("init") /\ UNCHANGED <<deps, inEnums, ops, flags, porder, added, usedInputs, argEnums, usedEnums, written>>

Next == AddOperation \/ StartGenerate \/ GenInputs \/ GenResults \/ GenFragments \/ CopyFiles \/ GenClient \/ GenEnums \/ GenInit
Spec == Init /\ [][Next]_vars

\* ---- properties ----------------------------------------------------------------------------------------------
Finished == pc = Len(porder) + 1
AllOps == {ops[k] : k \in DOMAIN ops}
VarInputs == UNION {o.varIn : o \in AllOps}
NeededInputs == Closure(deps, VarInputs)
NeededEnums == UNION {o.varEn \cup o.resEn \cup o.fragEn : o \in AllOps}
               \cup UNION {inEnums[i] : i \in (IF flags.allInputs THEN Inputs ELSE NeededInputs)}
\* the package contains every input reachable from a variable and nothing else of that kind
RetainedInputsExact == Finished => written.inputs = (IF flags.allInputs THEN Inputs ELSE NeededInputs)
\* ... and every enum reachable from variables, retained inputs, results and fragments, and nothing else
RetainedEnumsExact == Finished => written.enums = (IF flags.allEnums THEN Enums ELSE NeededEnums)
\* every name a module imports is defined in the module it imports it from
ImportsResolve ==
  Finished => /\ written.inputImports \cup written.clientEnumImports \cup written.resultEnumImports
                   \cup written.fragmentEnumImports \subseteq written.enums
              /\ written.clientInputImports \subseteq written.inputs
              /\ \A i \in written.inputs : deps[i] \subseteq written.inputs
\* the enum filter is evaluated only after the last growth of the used-enums accumulator
EnumsWrittenLast == [][written.enums # NotWritten => usedEnums' = usedEnums]_vars
=============================================================================
