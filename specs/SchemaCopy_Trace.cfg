SPECIFICATION TraceSpec
CONSTANTS Features <- Feats
 Needs <- NeedsOf
 Copied <- CopiedAsBuilt
 MaxOn = 18
 Formats <- AllFormats
INVARIANT RebuiltEqualsSource
CONSTRAINT Reached
POSTCONDITION Accepted
CHECK_DEADLOCK FALSE
