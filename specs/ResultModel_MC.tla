--------------------------- MODULE ResultModel_MC ---------------------------
EXTENDS ResultModel, Json, IOUtils, SequencesExt
AllRoots == {"j", "i", "u", "us", "js", "a", "aList", "d", "mat"}
QuickRoots == {"j", "u", "a", "d"}
\* export of the enumerated operations for the spec -> code leg
OpsSeq == SetToSeq(Ops)
ASSUME IOEnv.OUT_FILE = "" \/ JsonSerialize(IOEnv.OUT_FILE, OpsSeq)
=============================================================================
