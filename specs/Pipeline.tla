------------------------------ MODULE Pipeline ------------------------------
(* C17 (and the refusal / reporting part of C04): one run of the ariadne-codegen command as a sequence of phases.     *)
(* main.client / main.graphql_schema: read config -> section -> settings (each assertion) -> schema files (syntax) ->   *)
(* plugins -> schema validity -> query files (syntax) -> validation of operations -> add_operation* -> unique file      *)
(* names -> mkdir -> write* -> report.  A planted violation is detected in exactly one phase, by a typed error, and      *)
(* nothing under the target may change before every check has passed.                                                   *)
EXTENDS Naturals, Sequences, FiniteSets, TLC

CONSTANTS Violations,        \* the single-constraint violations explored ("none" = a valid input)
          DetectPhase,       \* violation -> phase in which the code detects it ("never" if it does not)
          Documented,        \* violation -> the ariadne-codegen exception class the documentation promises
          Raised,            \* violation -> the class actually raised at DetectPhase (as built)
          TargetStates       \* what is at the target before the run: "absent" | "empty" | "previous" | "foreign"

Phases == <<"config", "section", "settings", "schema_syntax", "plugins", "schema_valid", "queries_syntax",
            "queries_valid", "add_operations", "file_names", "mkdir", "write", "report">>
PhaseIdx(p) == CHOOSE i \in 1..Len(Phases) : Phases[i] = p
FirstEffect == PhaseIdx("mkdir")           \* nothing may touch the file system before this phase
CodegenErrors == {"ConfigFileNotFound", "MissingConfiguration", "InvalidConfiguration", "InvalidGraphqlSyntax",
                  "InvalidOperationForSchema", "NotSupported", "ParsingError", "IntrospectionError", "PluginImportError"}

VARIABLES v,          \* the planted violation
          target0,    \* state of the target before the run
          pc,         \* index of the next phase
          touched,    \* has anything under the target been created or modified?
          err,        \* "none" or the exception class that ended the run
          reported    \* the "Generated files" report was printed
vars == <<v, target0, pc, touched, err, reported>>

Init == /\ v \in Violations /\ target0 \in TargetStates
        /\ pc = 1 /\ touched = FALSE /\ err = "none" /\ reported = FALSE

Running == err = "none" /\ pc <= Len(Phases)
\* one phase: either it detects the planted violation and raises, or it passes on
Step ==
  /\ Running
  /\ LET p == Phases[pc] IN
     IF DetectPhase[v] = p
       THEN /\ err' = Raised[v] /\ pc' = pc /\ touched' = touched /\ reported' = reported
       ELSE /\ err' = err /\ pc' = pc + 1
            /\ touched' = (touched \/ p \in {"mkdir", "write"})
            /\ reported' = (reported \/ p = "report")
  /\ UNCHANGED <<v, target0>>
Next == Step
Spec == Init /\ [][Next]_vars

Done == ~Running
\* ---- properties ---------------------------------------------------------------------------------------------
\* an invalid input ends in the documented ariadne-codegen exception
TypedError == (Done /\ v # "none") => err = Documented[v]
\* ... before any file of the target is created or modified
NoSideEffect == (err # "none") => ~touched
NoEffectBeforeChecks == [][touched' # touched => pc >= FirstEffect]_vars
\* a valid input is accepted, generates and reports
ValidAccepted == (Done /\ v = "none") => (err = "none" /\ touched /\ reported)
\* every violation is detected before the first effect
DetectedEarly == \A x \in Violations \ {"none"} : DetectPhase[x] # "never" /\ PhaseIdx(DetectPhase[x]) < FirstEffect
=============================================================================
