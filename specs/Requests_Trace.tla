---------------------------- MODULE Requests_Trace ----------------------------
(* Trace validation for Requests: calls on ONE real client (sequentially with a re-used caller headers dict, or           *)
(* interleaved: asyncio tasks / threads), logged as   case(calls)   wire(c, obs)   ret(c, got)   shared(clean)            *)
(* obs is the request decoded from httpx (JSON body or multipart parts) and abstracted back to the spec's vocabulary.    *)
EXTENDS Requests, Json, IOUtils

Traces == JsonDeserialize(IOEnv.TRACE_FILE)
N == Len(Traces)
ASSUME \A t \in 1..N : TLCSet(t, 0)
TraceMaxCalls == 3
AnyTrees == {<<"V">>}          \* not used for enumeration: TraceInit binds args
AnyHdr == {"none", "own", "own_ct", "shared"}
NoDev == {}
AllOpNames == OpNameModes
Bools == {TRUE, FALSE}

VARIABLES tid, l
tvars == <<vars, tid, l>>
Ev == Traces[tid][l]
Has == l <= Len(Traces[tid])
Take == l' = l + 1 /\ tid' = tid
NC == Len(Traces[tid][1].calls)

TraceInit ==
  /\ tid \in 1..N /\ l = 2
  /\ args = [c \in Calls |-> IF c <= NC THEN [vars |-> Traces[tid][1].calls[c].tree, hdr |-> Traces[tid][1].calls[c].hdr,
                                               reuse |-> Traces[tid][1].calls[c].reuse, opname |-> Traces[tid][1].calls[c].opname]
                              ELSE [vars |-> <<"V", <<"absent">>, <<"absent">>>>, hdr |-> "none", reuse |-> FALSE, opname |-> "named"]]
  /\ callerVars = [c \in Calls |-> args[c].vars]
  /\ pc = [c \in Calls |-> IF c <= NC THEN "start" ELSE "done"] /\ local = [c \in Calls |-> NoReq] /\ wire = [c \in Calls |-> NoReq]
  /\ sharedHdr = "clean" /\ outcome = [c \in Calls |-> 0]

ObsWire(o) == [kind |-> o.kind, vars |-> o.vars, map |-> o.map, files |-> o.files, ctype |-> o.ctype, extra |-> o.extra]
T_Process == \E c \in Calls : Process(c) /\ l' = l /\ tid' = tid
T_Wire ==
  /\ Has /\ Ev.e = "wire" /\ Take
  /\ Ev.c \in Calls /\ Send(Ev.c)
  /\ wire'[Ev.c] = ObsWire(Ev.obs)
  /\ Ev.obs.opname = WireOpName(args[Ev.c].opname)
  /\ Ev.obs.query_ok /\ Ev.obs.method = "POST" /\ Ev.obs.body_keys = <<"operationName", "query", "variables">>
\* the caller's variables object, abstracted right after the call returned, is what the spec says the caller sees
T_Ret == /\ Has /\ Ev.e = "ret" /\ Take /\ Ev.c \in Calls /\ Return(Ev.c) /\ Ev.got = Ev.c
         /\ Ev.cvars = callerVars[Obj(Ev.c)]
T_Shared == /\ Has /\ Ev.e = "shared" /\ Take /\ Ev.clean /\ UNCHANGED vars

TraceNext == T_Process \/ T_Wire \/ T_Ret \/ T_Shared
TraceSpec == TraceInit /\ [][TraceNext]_tvars

Reached == TLCSet(tid, IF l > TLCGet(tid) THEN l ELSE TLCGet(tid))
Accepted ==
  LET bad == {t \in 1..N : TLCGet(t) # Len(Traces[t]) + 1} IN
  /\ \A t \in bad : PrintT(<<"REJECTED", t, TLCGet(t)>>)
  /\ bad = {}
=============================================================================
