"""C19 -- the schema source does not change the generated client.

leg 1: TLC checks SchemaSource (what each source carries vs. what each part of the client reads) on the intended design and
       as built (deviation = finding F19), and enumerates every partition of the definitions into files / sub-directories and
       the table of introspection responses with the documented outcome.
leg 2: the same schema is supplied as one SDL file, as every enumerated directory split (three extensions, nested
       directories) and through introspection served by a loop-back HTTP endpoint running graphql-core; the packages are
       compared part by part, order-insensitively.  Every cell of the introspection response table is served to the real
       CLI; the request's headers ($ENV substitution) and the verify flag are observed.
leg 3: (source, partition) -> part-equality traces are validated by SchemaSource_Trace.
"""
import ast
import http.server
import json
import os
import threading

from graphql import build_schema, graphql_sync

from ..common import Verdict, run_tlc, tlc_must_pass, validate_traces_parallel, pmap, Machinery, seed
from ..gen import write_job, generate

DEFS = [
    'enum Color { RED GREEN }\nscalar Stamp',                       # ends in a NAME
    'input Filter { name: String color: Color = GREEN limit: Int! = 10 tags: [String!] = ["a"] sub: SubFilter = {deep: 2} req: Int! }\ninput SubFilter { deep: Int = 1 }',
    '"A node" interface Node { id: ID! }\nunion Thing = Item',         # ends in a NAME
    'type Item implements Node { id: ID! "the name" name: String color: Color related(first: Int = 5, flt: Filter): [Item!]! }',
    'type Query { item(id: ID!): Item items(filter: Filter, colors: [Color!] = [RED]): [Item!]! node(id: ID!): Node }',
]
SDL = "\n\n".join(DEFS) + "\n"
QUERIES = """
query GetItem($id: ID!) { item(id: $id) { id name color related(first: 2) { id } } }
query ListItems($filter: Filter, $colors: [Color!]) { items(filter: $filter, colors: $colors) { ...Parts } }
query GetNode($id: ID!) { node(id: $id) { id ... on Item { name } } }
fragment Parts on Item { id color }
"""
MC = """SPECIFICATION Spec
CONSTANTS NDefs = 5
 Files <- ThreeFiles
 Deviations <- {dev}
INVARIANT {inv}
CHECK_DEADLOCK FALSE
"""


ENDINGS = ["blank_line", "last_token", "comment"]
# SchemaSource!HeaderKinds: a value that IS "$NAME" is replaced by the environment variable; every other value is sent as it is,
# also when it holds a "$" somewhere else
HEADERS_CFG = {"Authorization": "$VERIF_TOKEN", "X-Plain": "v", "X-Dollar-Inside": "k3y$Secret9", "X-Double": "pa$$w0rd", "X-Bearer": "Bearer $TOKEN"}
HEADERS_SENT = {"Authorization": "s3cret", "X-Plain": "v", "X-Dollar-Inside": "k3y$Secret9", "X-Double": "pa$$w0rd", "X-Bearer": "Bearer $TOKEN"}


class Handler(http.server.BaseHTTPRequestHandler):
    schema = None
    seen = []

    def log_message(self, *a):
        pass

    def do_POST(self):
        n = int(self.headers.get("content-length") or 0)
        raw = self.rfile.read(n)
        Handler.seen.append({"path": self.path, "headers": {k.lower(): v for k, v in self.headers.items()}})
        parts = self.path.strip("/").split("/")
        status, body = 200, "data"
        if parts[0] == "r":
            status, body = int(parts[1]), parts[2]
        payload = b""
        if body in ("data", "errors_and_data", "errors_empty_and_data"):
            try:
                q = json.loads(raw)["query"]
                res = graphql_sync(Handler.schema, q)
                doc = {"data": res.data}
            except Exception:  # noqa
                doc = {"data": None}
            if body == "errors_and_data":
                doc["errors"] = [{"message": "subgraph down"}]
            if body == "errors_empty_and_data":
                doc["errors"] = []
            payload = json.dumps(doc).encode()
        else:
            payload = {"nonjson": b"<html>no</html>", "nonjson_empty": b"", "nonjson_latin1": "<html>Acc\u00e8s refus\u00e9</html>".encode("latin-1"),
                       "nonjson_binary": b"\x1f\x8b\x08\x00\x00\x00\x00\x00\x00\x03\xff\xfe", "nonjson_truncated": b'{"data": {"__schema": {"types": [',
                       "array": b"[1]", "null": b"null", "no_data": b'{"x": 1}',
                       "errors_only": b'{"errors": [{"message": "denied"}]}', "data_null": b'{"data": null}',
                       "data_list": b'{"data": [1]}'}[body]
        self.send_response(status)
        self.send_header("Content-Type", "application/json")
        self.send_header("Content-Length", str(len(payload)))
        self.end_headers()
        if status not in (204, 304):
            self.wfile.write(payload)


def classes(path):
    if not path.exists():
        return None
    return {n.name: ast.unparse(n) for n in ast.parse(path.read_text()).body if isinstance(n, (ast.ClassDef,))}


def package_parts(job):
    d = job / "gclient"
    parts = {}
    res = {}
    for f in sorted(os.listdir(d)):
        if f.endswith(".py") and f not in ("enums.py", "input_types.py", "client.py", "__init__.py", "base_model.py", "exceptions.py", "async_base_client.py", "base_client.py"):
            res[f] = classes(d / f)
    parts["result_models"] = res
    parts["enums"] = classes(d / "enums.py")
    tree = ast.parse((d / "client.py").read_text())
    sigs, strs = {}, {}
    for cls in [n for n in tree.body if isinstance(n, ast.ClassDef)]:
        for m in cls.body:
            if isinstance(m, (ast.FunctionDef, ast.AsyncFunctionDef)):
                sigs[m.name] = ast.unparse(m.args) + " -> " + (ast.unparse(m.returns) if m.returns else "")
                for st in ast.walk(m):
                    if isinstance(st, ast.Call) and getattr(st.func, "id", None) == "gql" and st.args and isinstance(st.args[0], ast.Constant):
                        strs[m.name] = st.args[0].value
    parts["signatures"] = sigs
    parts["operation_strings"] = strs
    inp = {}
    it = ast.parse((d / "input_types.py").read_text())
    for cls in [n for n in it.body if isinstance(n, ast.ClassDef)]:
        for st in cls.body:
            if isinstance(st, ast.AnnAssign):
                inp[f"{cls.name}.{st.target.id}"] = [ast.unparse(st.annotation), ast.unparse(st.value) if st.value else "@required"]
    parts["input_required_and_defaults"] = inp
    return parts


def run(tier, work, replay=None):
    v = Verdict("C19", tier)
    q = tier == "quick"
    out = work.dir / "ss.json"
    r1 = run_tlc("SchemaSource_MC", MC.format(dev="NoDev", inv="ClientDependsOnlyOnCommon"), work.sub("tlc"), env={"OUT_FILE": str(out)}, workers=4, coverage=q)
    tlc_must_pass(r1, "SchemaSource intended")
    v.add_tlc(r1, "SchemaSource, intended design")
    r2 = run_tlc("SchemaSource_MC", MC.format(dev="AsBuilt", inv="ClientSameK"), work.sub("tlc"), env={"OUT_FILE": str(work.dir / "x.json")}, workers=4)
    tlc_must_pass(r2, "SchemaSource as built")
    v.add_tlc(r2, "SchemaSource, as built (defaults_from_ast_only)")
    exported = json.loads(out.read_text())
    partitions = exported["partitions"]
    responses = exported["responses"]
    Handler.schema = build_schema(SDL)
    Handler.seen = []
    srv = http.server.ThreadingHTTPServer(("127.0.0.1", 0), Handler)
    port = srv.server_address[1]
    th = threading.Thread(target=srv.serve_forever, daemon=True)
    th.start()
    try:
        base = f"http://127.0.0.1:{port}"
        ref_job = write_job(work.dir / "ref", schema=SDL, queries=QUERIES, package="gclient", options={"async_client": False})
        r = generate(ref_job)
        if r["exc_class"]:
            raise Machinery(f"reference package does not generate: {r['exc_class']} {r['exc_msg']}")
        ref = package_parts(ref_job)
        if q:
            import random
            rnd = random.Random(seed())
            partitions = [p for i, p in enumerate(partitions) if i % 5 == seed() % 5][:60]

        def gen_dir(t):
            i, part = t
            files = {}
            ending = ENDINGS[i % 3]
            for d, f in zip(DEFS, part):
                files[f] = files.get(f, "") + d + "\n\n"
            if ending == "last_token":
                files = {f: t.rstrip("\n") for f, t in files.items()}
            elif ending == "comment":
                files = {f: t.rstrip("\n") + "\n# end of " + f.split("/")[-1] for f, t in files.items()}
            job = write_job(work.dir / f"dir_{i}", schema=files, queries=QUERIES, package="gclient", options={"async_client": False})
            rr = generate(job)
            res = package_parts(job) if rr["exc_class"] is None else None
            import shutil
            shutil.rmtree(job, ignore_errors=True)
            return ("directory", part, rr, res, ending)
        outs = pmap(gen_dir, list(enumerate(partitions)))
        # introspection source (served by graphql-core on the loop-back interface)
        job = write_job(work.dir / "introspect", schema=None, queries=QUERIES, package="gclient", remote_schema_url=base + "/ok",
                        options={"async_client": False, "remote_schema_headers": HEADERS_CFG,
                                 "remote_schema_verify_ssl": False})
        # Secret9 / w0rd exist in the environment: a "$" INSIDE a value is not a reference and must not pick them up
        rr = generate(job, env={"VERIF_TOKEN": "s3cret", "VERIF_PROBE_HTTPX": "1", "Secret9": "UNRELATED", "w0rd": "UNRELATED", "TOKEN": "UNRELATED"})
        outs.append(("introspection", ["-"] * 5, rr, package_parts(job) if rr["exc_class"] is None else None, "blank_line"))
        posts = [e for e in rr.get("events", []) if isinstance(e, dict) and e.get("e") == "httpx.post"]
        got = [s for s in Handler.seen if s["path"] == "/ok"]
        if not posts or {k: posts[0]["headers"].get(k) for k in HEADERS_SENT} != HEADERS_SENT:
            v.violation({"part": "request", "what": "headers"}, "configured_headers_not_sent", {"posts": posts, "expected": HEADERS_SENT})
        elif not got or {k: got[-1]["headers"].get(k.lower()) for k in HEADERS_SENT} != HEADERS_SENT:
            v.violation({"part": "request", "what": "headers"}, "configured_headers_not_received", {"server_saw": got[-1:], "expected": HEADERS_SENT})
        if posts and posts[0]["verify"] is not False:
            v.violation({"part": "request", "what": "verify"}, "verify_flag_not_passed", {"posts": posts})
        job2 = write_job(work.dir / "introspect_verify", schema=None, queries=QUERIES, package="gclient", remote_schema_url=base + "/ok",
                         options={"async_client": False})
        rr2 = generate(job2, env={"VERIF_PROBE_HTTPX": "1"})
        posts2 = [e for e in rr2.get("events", []) if isinstance(e, dict) and e.get("e") == "httpx.post"]
        if not posts2 or posts2[0]["verify"] is not True:
            v.violation({"part": "request", "what": "verify_default"}, "verify_flag_not_passed", {"posts": posts2})
        traces, owners = [], []
        for src, part, rr_, res, ending in outs:
            feats = {"source": src, "partition": part if src == "directory" else None, "ending": ending}
            if res is None:
                v.violation(feats, f"gen_crash:{rr_['exc_class']}", {"message": rr_["exc_msg"]})
                continue
            same = {}
            for pname in ("result_models", "enums", "signatures", "operation_strings", "input_required_and_defaults"):
                same[pname] = res[pname] == ref[pname]
                if not same[pname]:
                    a, b = res[pname], ref[pname]
                    diff = sorted(k for k in set(a or {}) | set(b or {}) if (a or {}).get(k) != (b or {}).get(k))[:6]
                    v.violation(dict(feats, part=pname), f"client_differs:{pname}", {"differs_on": diff, "got": {k: (a or {}).get(k) for k in diff[:3]},
                                                                                     "reference": {k: (b or {}).get(k) for k in diff[:3]}})
            traces.append([{"e": "case", "src": src, "partition": part if src == "directory" else ["z.gql"] * 5, "ending": ending}, {"e": "generated", "same": same}])
            owners.append(feats)
        # ---- the introspection response table
        def probe(rsp):
            url = (base + f"/r/{rsp['status']}/{rsp['body']}") if rsp["url"] == "ok" else {"invalid": "http://[::1", "bad_scheme": "htp://127.0.0.1/graphql"}[rsp["url"]]
            j = write_job(work.dir / f"ir_{rsp['url']}_{rsp['status']}_{rsp['body']}", schema=None, queries=QUERIES, package="gclient",
                          remote_schema_url=url, options={"async_client": False})
            g = generate(j)
            wrote = (j / "gclient").exists()
            import shutil
            shutil.rmtree(j, ignore_errors=True)
            return rsp, g, wrote
        resp_sel = responses if not q else [r_ for r_ in responses if r_["status"] in (200, 500) or r_["body"] in ("data", "errors_and_data") or (r_["body"].startswith("nonjson") and r_["status"] == 201)]
        for rsp, g, wrote in pmap(probe, resp_sel):
            feats = {"part": "introspection_response", "url": rsp["url"], "status": rsp["status"], "body": rsp["body"]}
            if rsp["outcome"] == "IntrospectionError":
                if g["exc_class"] != "IntrospectionError":
                    v.violation(feats, "introspection_failure_not_typed:" + str(g["exc_class"]), {"message": g["exc_msg"], "package_written": wrote})
                elif wrote:
                    v.violation(feats, "package_written_despite_error", {})
            elif g["exc_class"] is not None:
                v.violation(feats, "good_introspection_rejected:" + g["exc_class"], {"message": g["exc_msg"]})
        n_eval = len(outs) + len(resp_sel) + 2
    finally:
        srv.shutdown()
    rs, rejected, inv = validate_traces_parallel("SchemaSource_Trace", "SchemaSource_Trace.cfg", traces, work.sub("tv"), chunk_size=400,
                                                 env={"OUT_FILE": ""})
    for r3 in rs:
        v.add_tlc(r3, "SchemaSource_Trace")
    bad = set(rejected) | {t for _, t in inv if t is not None}
    for t in sorted(bad):
        why = [i for i, tt in inv if tt == t]
        v.violation(dict(owners[t], part="trace"), "trace_rejected:" + (",".join(why) or "generated"), {"trace": traces[t]})
    v.cov["evaluations"] = n_eval
    v.cov["traces_validated_against_impl"] = len(traces) - len(bad)
    v.cov["distinct_nontrivial"] = len([1 for s_, p_, _, _, _ in outs if s_ != "directory" or len(set(p_)) >= 2])
    v.cov["rule"] = ("sources = every assignment of 5 definitions to 3 file slots (a/x.graphql, b/sub/y.graphqls, z.gql) enumerated by TLC "
                     "(quick: a seeded fifth), plus introspection through a loop-back endpoint; introspection responses = url x status x body "
                     "class table from SchemaSource!Responses; non-trivial = a split over >= 2 files, or introspection")
    v.cov["exhaustive"] = not q
    v.sample(traces[0])
    v.sample(traces[-1])
    v.assumptions += ["graphql-core serves introspection for the same SDL (loop-back HTTP, no TLS: the verify flag is observed at the httpx.post call)"]
    return v.finish()
