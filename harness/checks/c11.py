"""C11 -- requests are well-formed, uploads follow the multipart request specification, the four clients agree, calls
on one client do not affect each other.

leg 1: TLC evaluates MultipartSpec for every variables tree of the bounded space (ASSUME) and model-checks the calls as
       interleaved processes (NoInterference, OwnResponse, CallerStateUntouched).
leg 2: TLC exports every tree with the wire the spec demands; each is sent through execute() of the four generated-copy
       base clients (tracer off / on) and the decoded httpx.Request is compared with the demanded wire.
leg 3: histories on ONE client -- sequential calls re-using a caller-owned headers dict, and interleaved calls (asyncio
       tasks under a seeded scheduler / threads behind a barrier) -- are logged (wire / ret events) and validated by
       Requests_Trace.
"""
import json
import random

from ..common import Verdict, run_tlc, tlc_must_pass, validate_traces_parallel, pmap, Machinery, seed
from ..gen import write_job, generate, run_in_pkg

SCHEMA = """
scalar Upload
scalar X
enum Color { RED GREEN }
input InM { k1: Int k2: Int k3: String }
input InU { k1: Upload k2: Int }
type Query { f(a: X, b: X, m: InM, u: InU, c: Color): Int }
"""
QUERY = "query Op($m: InM, $u: InU, $c: Color) { f(m: $m, u: $u, c: $c) }\n"
CLIENTS = [("async_plain", {"async_client": True}, None), ("sync_plain", {"async_client": False}, None),
           ("async_otel", {"async_client": True, "opentelemetry_client": True}, None),
           ("sync_otel", {"async_client": False, "opentelemetry_client": True}, None),
           ("async_otel_tracer", {"async_client": True, "opentelemetry_client": True}, "verif"),
           ("sync_otel_tracer", {"async_client": False, "opentelemetry_client": True}, "verif")]
MC_CFG = """SPECIFICATION Spec
CONSTANTS NCalls = {n}
 VarTrees <- ConcTrees
 HeaderModes <- AllHdr
 Reuse <- Bools
 OpNames <- {opn}
 Deviations <- {dev}
INVARIANT NoInterference
INVARIANT OwnResponse
INVARIANT CallerStateUntouched
INVARIANT CallerVarsUntouched
INVARIANT SpecHolds
CHECK_DEADLOCK FALSE
"""


def nontrivial(tree):
    s = json.dumps(tree)
    return any(t in s for t in ('"u1"', '"u2"', '"m"', '"mu"', '"unset"', '"e"', '"d"'))


def ident_of(wire):
    return json.dumps([wire["vars"], wire["files"], wire["map"]]) + "|" + wire["extra"] + "|" + wire["ctype"]


def expected_wire(case_wire, hdr):
    w = dict(case_wire)
    if hdr == "own_ct":
        w["ctype"] = "caller"
    w["extra"] = "none" if hdr == "none" else "caller_headers"
    return w


def run(tier, work, replay=None):
    v = Verdict("C11", tier)
    q = tier == "quick"
    out = work.dir / "cases.json"
    res = run_tlc("Requests_MC", MC_CFG.format(n=2 if q else 3, dev="NoDev", opn="AllOpNames" if q else "NamedOnly"), work.sub("tlc"), env={"OUT_FILE": str(out), "TREESET": "small" if q else "full"},
                  timeout=3000, coverage=q)
    tlc_must_pass(res, "Requests_MC")
    if not q:       # thorough: three interleaved calls with the name given + two calls over every way of (not) naming the operation
        res_b = run_tlc("Requests_MC", MC_CFG.format(n=2, dev="NoDev", opn="AllOpNames"), work.sub("tlc_b"), env={"OUT_FILE": "", "TREESET": "small"}, timeout=3000)
        tlc_must_pass(res_b, "Requests_MC (operation-name modes)")
        v.add_tlc(res_b, "Requests: 2 calls x operation-name modes")
    # anti-vacuity: writing nulls into the walked containers (seeded change C11b) violates the spec's invariants
    dev = run_tlc("Requests_MC", MC_CFG.format(n=2, dev="InPlace", opn="NamedOnly"), work.sub("tlc_dev"), env={"OUT_FILE": "", "TREESET": "small"}, timeout=3000)
    if not ({"CallerVarsUntouched", "NoInterference"} & set(dev.invariant_violated)):
        raise Machinery("anti-vacuity: in_place_nulling does not violate CallerVarsUntouched / NoInterference")
    v.add_tlc(res, f"Requests: interleavings of {2 if q else 3} calls + MultipartSpec over all trees")
    cases = json.loads(out.read_text())
    if any(not c["ok"] for c in cases):
        raise Machinery("MultipartSpec false for an exported tree")
    by_tree = {json.dumps(c["tree"]): c for c in cases}
    rnd = random.Random(seed())
    for i, c in enumerate(cases):
        c["timeout"] = i % 5 == 0
        c["opname"] = ["named", "omitted", "named", "none"][i % 4]        # execute(query) without / with operation_name=None
    # histories: sequential with a shared caller dict; concurrent
    trees = [c["tree"] for c in cases]
    ups = [t for t in trees if by_tree[json.dumps(t)]["wire"]["kind"] == "multipart"]
    nested_ups = [t for t in ups if '"D"' in json.dumps(t)]
    plain = [t for t in trees if by_tree[json.dumps(t)]["wire"]["kind"] == "json"]
    histories = []
    for k in range(30 if q else 200):
        n = rnd.choice([2, 3])
        mode = "sequential" if k % 2 == 0 else "concurrent"
        calls = []
        for j in range(n):
            t = rnd.choice(plain if (j == 0 and mode == "sequential") else (ups if j == 1 else trees))
            hdr = rnd.choice(["shared", "shared", "own", "none", "own_ct"]) if mode == "sequential" else rnd.choice(["none", "own", "shared"])
            w = expected_wire(by_tree[json.dumps(t)]["wire"], hdr)
            if hdr == "own_ct" and w["kind"] == "multipart":
                hdr = "own"          # overriding Content-Type of a multipart request is the caller breaking it: not explored
                w = expected_wire(by_tree[json.dumps(t)]["wire"], hdr)
            calls.append({"tree": t, "hdr": hdr, "ident": ident_of(w), "reuse": False})
        if k % 3 == 0:
            # a retry: a later call passes the very same variables object as call 1 (an Upload inside a caller-owned dict)
            t = rnd.choice(nested_ups)
            for j in (0, rnd.randrange(1, n)):
                w = expected_wire(by_tree[json.dumps(t)]["wire"], calls[j]["hdr"] if calls[j]["hdr"] != "own_ct" else "own")
                calls[j] = {"tree": t, "hdr": calls[j]["hdr"] if calls[j]["hdr"] != "own_ct" else "own", "ident": ident_of(w), "reuse": j > 0}
        # calls are told apart on the wire by (variables, headers): make them pairwise distinguishable
        for j in range(1, len(calls)):
            for alt in ["none", "own", "shared"]:
                if calls[j]["ident"] not in [c["ident"] for c in calls[:j]]:
                    break
                calls[j]["hdr"] = alt
                calls[j]["ident"] = ident_of(expected_wire(by_tree[json.dumps(calls[j]["tree"])]["wire"], alt))
        histories.append({"mode": mode, "calls": calls})

    def one(cl):
        name, opts, tracer = cl
        job = write_job(work.dir / f"job_{name}", schema=SCHEMA, queries=QUERY, package="gclient", options=opts)
        r = generate(job)
        if r["exc_class"]:
            return name, None, r
        o = run_in_pkg(job, "harness.pkg.c11", {"package": "gclient", "async": opts["async_client"], "tracer": tracer,
                                                "cases": cases, "histories": histories, "seed": seed()}, timeout=3000)
        return name, o, r

    results = pmap(one, CLIENTS)
    traces, owners = [], []
    agree = {}
    n_eval = 0
    for name, o, r in results:
        if o is None:
            v.violation({"client": name, "stage": "generate"}, f"gen_crash:{r['exc_class']}", r["exc_msg"])
            continue
        for c, rec in zip(cases, o["single"]):
            n_eval += 1
            feats = {"client": name, "kind": c["wire"]["kind"], "tree": c["tree"], "alias": bool(c.get("alias"))}
            if "error" in rec:
                v.violation(feats, "call_failed:" + rec["error"].split(":")[0], rec)
                continue
            ob = rec["obs"]
            want = c["wire"]
            agree.setdefault(json.dumps(c["tree"]), {})[name] = json.dumps({k: ob.get(k) for k in ("kind", "vars", "map", "files", "ctype", "body_keys", "query_ok", "method", "opname")}, sort_keys=True)
            probs = []
            if rec["requests"] != 1:
                probs.append("requests_sent=%d" % rec["requests"])
            if ob["method"] != "POST" or not ob["query_ok"] or ob["body_keys"] != ["operationName", "query", "variables"]:
                probs.append("body_keys_or_query")
            if ob.get("opname") != ("named" if c["opname"] == "named" else "null"):
                probs.append("operation_name:" + str(ob.get("opname")))
            for k in ("kind", "vars", "map", "files", "ctype"):
                if ob.get(k) != want[k]:
                    probs.append(k)
            if c["timeout"] and ob.get("timeout") != 3.5:
                probs.append("kwargs_not_passed")
            if rec.get("cvars") != c["tree"]:
                probs.append("caller_variables_mutated")
            if probs:
                v.violation(feats, "wire_differs:" + ",".join(probs), {"expected": want, "observed": ob})
            tr = [{"e": "case", "calls": [{"tree": c["tree"], "hdr": "none", "reuse": False, "opname": c["opname"]}]}, {"e": "wire", "c": 1, "obs": ob},
                  {"e": "ret", "c": 1, "got": 1, "cvars": rec.get("cvars")}]
            traces.append(tr)
            owners.append(feats)
        for h, hrec in zip(histories, o["histories"]):
            n_eval += len(h["calls"])
            feats = {"client": name, "mode": h["mode"], "hdrs": [c["hdr"] for c in h["calls"]], "reuse": any(c["reuse"] for c in h["calls"]), "kinds": [by_tree[json.dumps(c["tree"])]["wire"]["kind"] for c in h["calls"]]}
            crash = [e for e in hrec["events"] if e["e"] == "crash"]
            if crash:
                v.violation(feats, "history_call_failed", {"events": crash, "calls": h["calls"]})
                continue
            if not hrec["shared_clean"]:
                v.violation(feats, "caller_headers_mutated", {"after": hrec["shared_after"], "calls": h["calls"]})
            tr = [{"e": "case", "calls": [{"tree": c["tree"], "hdr": c["hdr"], "reuse": c["reuse"], "opname": "named"} for c in h["calls"]]}]
            for e in hrec["events"]:
                if e["e"] == "wire":
                    tr.append({"e": "wire", "c": e["c"], "obs": e["obs"]})
                else:
                    tr.append({"e": "ret", "c": e["c"], "got": e["got"], "cvars": e["cvars"]})
            tr.append({"e": "shared", "clean": bool(hrec["shared_clean"])})
            traces.append(tr)
            owners.append(feats)
    # the four clients (and tracer on/off) emit identical requests
    for tkey, per in agree.items():
        if len(set(per.values())) > 1:
            v.violation({"tree": json.loads(tkey), "clients": sorted(per)}, "clients_disagree", per)
    v.cov["evaluations"] = n_eval
    rs, rejected, inv = validate_traces_parallel("Requests_Trace", "Requests_Trace.cfg", traces, work.sub("tv"), chunk_size=800)
    for r in rs:
        v.add_tlc(r, "Requests_Trace")
    bad = set(rejected) | {t for _, t in inv if t is not None}
    for t in sorted(bad):
        why = [i for i, tt in inv if tt == t]
        at = traces[t][rejected[t] - 1] if t in rejected and rejected[t] - 1 < len(traces[t]) else {}
        v.violation(owners[t], "trace_rejected:" + (",".join(why) or f"at:{at.get('e')}"), {"trace": traces[t], "matched_prefix": rejected.get(t)})
    v.cov["traces_validated_against_impl"] = len(traces) - len(bad)
    v.cov["distinct_nontrivial"] = len([1 for c in cases if nontrivial(c["tree"])]) + len(histories)
    v.cov["rule"] = ("trees = variables structures enumerated by TLC (Requests_MC!Trees*: leaves scalar/None/enum/datetime/Upload x2/"
                     "model/model-with-Upload, lists and dicts to depth 2-3, UNSET at top level), each on 6 client variants; histories = "
                     "seeded sequences / interleavings of 2-3 calls on one client with own / shared / no caller headers; non-trivial = tree "
                     "with an Upload, model, UNSET, enum or datetime leaf, or >=2 calls")
    v.cov["exhaustive"] = True
    for k in (0, len(traces) // 2, len(traces) - 1):
        v.sample(traces[k])
    v.assumptions += ["httpx builds the multipart body; it is parsed back by boundary", "overriding Content-Type of a multipart request is a caller error and is not explored",
                      "models inside plain dicts and UNSET below the top level are outside the statement and not generated"]
    return v.finish()
