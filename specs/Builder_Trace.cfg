SPECIFICATION TraceSpec
CONSTANTS MaxNodes <- TraceMaxNodes
 MaxOps <- TraceMaxOps
 Aliases <- TraceAliases
 AliasCopies = FALSE
INVARIANT DocValid
INVARIANT ArgsExact
INVARIANT HistoryFreeUpToLeak
CONSTRAINT Reached
POSTCONDITION Accepted
CHECK_DEADLOCK FALSE
