"""C15 -- bundled plugins preserve client behaviour apart from their documented change.

leg 1: TLC checks Plugins (hooks fired in generator order, each over the plugin list in configuration order) for all plugin
       lists up to a bound x operation shapes; a seeded deviation must violate Loads (anti-vacuity).
leg 2: every plugin list TLC exports is generated for real (each in its own process) next to the plugin-free package; both are
       loaded and driven with the same scripted responses; requests, results, file sets and the identity plugin's bytes are
       compared per the documented delta of each plugin.
leg 3: (plist, kind) -> observed artefact traces are validated by Plugins_Trace.
"""
import hashlib
import json
import os

from ..common import Verdict, run_tlc, tlc_must_pass, validate_traces_parallel, pmap, Machinery, seed
from ..gen import write_job, generate, run_in_pkg
from ..universe import gamma

SDL = gamma.SDL + "\nextend type Query { version: String byId(id: ID!, flt: Flt): A byColor(c: Color, f: Flt): A today: Date dates: [Date!] }\ninput Flt { q: String when: Date }\ntype Subscription { ticks: Int! }\n"
QUERIES = """
query OneField { a { id name when color } }
query ManyFields { a { id } d { id d1 } }
query UnionOp { u { __typename ... on A { a1 } ... on D { d1 owner { id } } } }
query FragOp { a { ...FA } }
query ScalarOp { version }
query ArgsOp($id: ID!, $flt: Flt) { byId(id: $id, flt: $flt) { id rank } }
subscription SubOp { ticks }
query TypenameAndField { __typename a { id } }
query OnlyTypename { __typename }
query RootFragment { ...RootInfo }
query ReqArgsOp($c: Color!, $f: Flt!) { byColor(c: $c, f: $f) { id } }
query OptArgsOp($c: Color, $f: Flt) { byColor(c: $c, f: $f) { id } }
query ScalarDateOp { today }
query ScalarDatesOp { dates }
query LiteralOp { byId(id: "par\\u2028graph \\"q\\" \\\\ end", flt: {q: "form\\u000Cfeed"}) { id } }
fragment FA on A { a1 tags }
fragment RootInfo on Query { __typename version }
"""
OPS = {"OneField": False, "ManyFields": False, "UnionOp": False, "FragOp": False, "ScalarOp": False, "ArgsOp": True, "SubOp": False,
       "TypenameAndField": False, "OnlyTypename": False, "RootFragment": False, "LiteralOp": False,
       "ReqArgsOp": "req", "OptArgsOp": False, "ScalarDateOp": False, "ScalarDatesOp": False}
KIND = {"OneField": "one_field", "ManyFields": "many_fields", "UnionOp": "union", "FragOp": "fragment", "ScalarOp": "scalar",
        "ArgsOp": "arguments", "SubOp": "subscription", "TypenameAndField": "typename_and_field", "OnlyTypename": "only_typename",
        "RootFragment": "root_fragment_two_fields", "LiteralOp": "string_literals",
        # one class (enum Color, input Flt) as a REQUIRED argument of one method and an OPTIONAL one of another
        "ReqArgsOp": "required_arguments", "OptArgsOp": "optional_arguments",
        # the single top-level field is a custom scalar mapped to an ABSOLUTE Python type that no operation variable uses
        "ScalarDateOp": "custom_scalar_result", "ScalarDatesOp": "custom_scalar_list_result"}
MANY = ("many_fields", "typename_and_field", "root_fragment_two_fields")     # Plugins!SingleTopLevel is FALSE for these
PATH = {"shorter": "ariadne_codegen.contrib.shorter_results.ShorterResultsPlugin",
        "extract": "ariadne_codegen.contrib.extract_operations.ExtractOperationsPlugin",
        "fwdrefs": "ariadne_codegen.contrib.client_forward_refs.ClientForwardRefsPlugin",
        "noreimports": "ariadne_codegen.contrib.no_reimports.NoReimportsPlugin",
        "identity": "harness.verif_plugins.IdentityPlugin", "tagA": "harness.verif_plugins.TagAPlugin", "tagB": "harness.verif_plugins.TagBPlugin"}
CFG = """SPECIFICATION Spec
CONSTANTS PluginLists <- {lists}
 OpKinds <- AllKinds
 Deviations <- {dev}
INVARIANT Loads
INVARIANT HookOrder
INVARIANT ShorterIsProjection
INVARIANT ExtractMovesStrings
INVARIANT ForwardRefsOnlyMoveImports
INVARIANT NoReimportsOnlyInit
INVARIANT IdentityNoChange
CHECK_DEADLOCK FALSE
"""


def file_hashes(job):
    d = job / "gclient"
    return {f: hashlib.sha256((d / f).read_bytes()).hexdigest() for f in sorted(os.listdir(d)) if f.endswith(".py")}


def norm_req(r):
    """requests are compared modulo GraphQL-insignificant whitespace of the document (indentation of the literal)"""
    from graphql import parse, print_ast
    if isinstance(r, list):
        return [norm_req(x) for x in r]
    if isinstance(r, dict) and isinstance(r.get("query"), str):
        r = dict(r)
        try:
            r["query"] = print_ast(parse(r["query"]))
        except Exception:  # noqa
            pass
    return r


def top_key(opname):
    return {"OneField": "a", "UnionOp": "u", "FragOp": "a", "ScalarOp": "version", "ArgsOp": "byId", "SubOp": "ticks", "OnlyTypename": "__typename", "LiteralOp": "byId", "ReqArgsOp": "byColor", "OptArgsOp": "byColor", "ScalarDateOp": "today", "ScalarDatesOp": "dates"}.get(opname)


def run(tier, work, replay=None):
    v = Verdict("C15", tier)
    q = tier == "quick"
    out = work.dir / "lists.json"
    res = run_tlc("Plugins_MC", CFG.format(lists="Lists3" if q else "ListsAll", dev="NoDev"), work.sub("tlc"),
                  env={"OUT_FILE": str(out), "LISTS": "2" if q else "3"}, workers=8, timeout=3000, coverage=q)
    tlc_must_pass(res, "Plugins_MC")
    v.add_tlc(res, "Plugins: all plugin lists (orders) x operation shapes")
    dev = run_tlc("Plugins_MC", CFG.format(lists="Lists2", dev="Seeded"), work.sub("tlc"), env={"OUT_FILE": str(work.dir / "x.json"), "LISTS": "2"}, workers=2)
    if "Loads" not in dev.invariant_violated:
        raise Machinery("anti-vacuity: the seeded deviation does not violate Loads")
    lists = json.loads(out.read_text())
    if q:
        import random
        rnd = random.Random(seed())
        triples = [["noreimports", "extract", "shorter"], ["extract", "noreimports", "fwdrefs"], ["fwdrefs", "shorter", "extract"],
                   ["tagB", "identity", "tagA"], ["shorter", "fwdrefs", "noreimports"]]
        lists = lists + triples
    lists = [list(x) for x in lists]
    opts0 = {"async_client": True}
    scal = {"Date": {"type": "datetime.date"}}

    MODSPELL = {"shorter", "extract", "fwdrefs", "noreimports"}      # contrib modules holding exactly one plugin class

    def spell(pl, mixed):
        """configuration strings of a plugin list; mixed: the FIRST plugin is named by its MODULE path (the explorer then
        discovers the class), the others by class path -- the order of application must still be the configured one"""
        out_ = [PATH[p] for p in pl]
        if mixed:
            out_[0] = PATH[pl[0]].rsplit(".", 1)[0]
        return out_

    def gen(pl_):
        mixed = isinstance(pl_, tuple)
        pl = list(pl_[0]) if mixed else pl_
        tag = "base" if pl is None else (("m_" if mixed else "p_") + "_".join(pl) if pl else "p_empty")
        job = write_job(work.dir / f"job_{tag}", schema=SDL, queries=QUERIES, package="gclient",
                        options=dict(opts0, **({"plugins": spell(pl, mixed)} if pl else {})), scalars=scal)
        r = generate(job)
        if r["exc_class"]:
            return pl, job, r, None
        try:
            o = run_in_pkg(job, "harness.pkg.c15", {"package": "gclient", "sdl": SDL, "ops": OPS})
        except Machinery as ex:
            o = {"loads": False, "error": str(ex)[-400:]}
        o["hashes"] = file_hashes(job)
        return pl, job, r, o

    mixed_lists = [(pl, "module_path_first") for pl in lists if len(pl) >= 2 and pl[0] in MODSPELL]
    outs = pmap(gen, [None] + lists + mixed_lists)
    spellings = [None] + ["class_paths"] * len(lists) + ["module_path_first"] * len(mixed_lists)
    base = outs[0][3]
    if base is None or not base.get("loads"):
        raise Machinery(f"plugin-free package does not generate/load: {outs[0][2].get('exc_msg') if base is None else base.get('error')}")
    traces, owners = [], []
    n = 0
    for (pl, job, r, o), spelling in list(zip(outs, spellings))[1:]:
        feats = {"plugins": pl, "plugins_key": "+".join(pl), "spelling": spelling,
                 "fwdrefs_before_shorter": "fwdrefs" in pl and "shorter" in pl and pl.index("fwdrefs") < pl.index("shorter")}
        if o is None:
            v.violation(feats, f"gen_crash:{r['exc_class']}", {"message": r["exc_msg"]})
            continue
        if not o.get("loads"):
            v.violation(feats, "package_does_not_load", {"error": o.get("error")})
            for opname in OPS:
                traces.append([{"e": "case", "plist": pl, "kind": KIND[opname]},
                               {"e": "observed", "loads": False, "same_requests": False, "same_results": False, "ret": "full_model",
                                "queryAt": "inline", "opsModule": False, "clientImports": "module_level", "init": "reexports", "tags": []}])
                owners.append(feats)
            continue
        if set(pl) <= {"identity"} and o["hashes"] != base["hashes"]:
            v.violation(feats, "identity_plugin_changes_bytes", {"files": [f for f in o["hashes"] if o["hashes"].get(f) != base["hashes"].get(f)]})
        for opname in OPS:
            n += 1
            b, p = base["ops"][opname], o["ops"].get(opname, {})
            f2 = dict(feats, kind=KIND[opname])
            if "error" in p:
                v.violation(f2, "plugged_call_failed:" + p["error"].split(":")[0], {"plugged": p})
                same_req = same_res = False
                ret = "full_model"
            else:
                same_req = norm_req(p.get("request")) == norm_req(b.get("request"))
                if not same_req:
                    v.violation(f2, "request_differs", {"plugged": p.get("request"), "plain": b.get("request")})
                pr, br = p.get("result"), b.get("result")
                if pr == br:
                    ret, same_res = "full_model", True
                else:
                    # ShorterResults: exactly the single top-level field of the plugin-free result
                    k = top_key(opname)
                    def proj(x):
                        if isinstance(x, list):
                            return [proj(i) for i in x]
                        return x["v"].get(k) if isinstance(x, dict) and "@model" in x else x
                    def strip(x):
                        if isinstance(x, list):
                            return [strip(i) for i in x]
                        return x["v"] if isinstance(x, dict) and "@model" in x else x
                    if k is not None and strip(pr) == proj(br):
                        ret, same_res = "single_field", True
                    else:
                        ret, same_res = "full_model", False
                        v.violation(f2, "result_differs", {"plugged": pr, "plain": br})
                if "shorter" in pl and KIND[opname] not in MANY and ret != "single_field" and same_res:
                    v.violation(f2, "shorter_results_did_not_unwrap", {"plugged": pr})
                if ("shorter" not in pl or KIND[opname] in MANY) and ret == "single_field":
                    v.violation(f2, "unwrapped_without_shorter_results", {"plugged": pr})
            if "extract" in pl and o.get("ops_module"):
                const = {k.replace("_", "").lower(): val for k, val in (o.get("constants") or {}).items()}
                sent = (p.get("request") or {})
                sent_q = sent.get("query") if isinstance(sent, dict) else (sent[0].get("query") if sent else None)
                if const.get((opname + "gql").lower()) != sent_q or norm_req({"query": sent_q}) != norm_req({"query": (b.get("request") or {}).get("query") if isinstance(b.get("request"), dict) else (b.get("request") or [{}])[0].get("query")}):
                    v.violation(f2, "extracted_string_differs", {"constant": const.get((opname + "gql").lower()), "sent": sent_q})
            init = "empty" if o["init_imports"] == 0 else ("reexports_and_ops" if o["init_has_ops"] else "reexports")
            traces.append([{"e": "case", "plist": pl, "kind": KIND[opname]},
                           {"e": "observed", "loads": True, "same_requests": bool(same_req), "same_results": bool(same_res), "ret": ret,
                            "queryAt": "operations_module" if not o["inline_queries"] else "inline", "opsModule": bool(o["ops_module"]),
                            "clientImports": "type_checking" if o["type_checking"] else "module_level", "init": init, "tags": o["tags"]}])
            owners.append(f2)
    v.cov["evaluations"] = n
    rs, rejected, inv = validate_traces_parallel("Plugins_Trace", "Plugins_Trace.cfg", traces, work.sub("tv"), chunk_size=400)
    for r3 in rs:
        v.add_tlc(r3, "Plugins_Trace")
    bad = set(rejected) | {t for _, t in inv if t is not None}
    for t in sorted(bad):
        why = [i for i, tt in inv if tt == t]
        v.violation(owners[t], "trace_rejected:" + (",".join(why) or "observed"), {"trace": traces[t]})
    v.cov["traces_validated_against_impl"] = len(traces) - len(bad)
    v.cov["distinct_nontrivial"] = len([1 for pl in lists if set(pl) - {"identity"}])
    v.cov["plugin_lists"] = len(lists)
    v.cov["rule"] = ("configurations = every ordered list of up to 2 (quick, + chosen triples) / 3 (thorough) of the 4 bundled plugins + an "
                     "identity plugin + two tagging plugins, enumerated by TLC; each generated and compared with the plugin-free package on 7 "
                     "operation shapes; non-trivial = a list with at least one plugin that overrides a hook")
    v.cov["exhaustive"] = True
    for k in (0, len(traces) // 2, len(traces) - 1):
        v.sample(traces[k])
    v.assumptions += ["scripted responses: graphql-core on a fixed root value; subscription through a scripted connection"]
    return v.finish()
