---------------------------- MODULE HttpOutcome ----------------------------
(* C12 -- every HTTP response is classified into exactly one documented outcome.            *)
(* The decision chain of get_data (four copies in the bundled base clients) followed by the   *)
(* tail of a generated method (model_validate).  One action per statement of get_data, so   *)
(* a re-ordering of the statements in the code is a different behaviour of this spec.        *)
(* The same chain, with other outcome names, is used by introspect_remote_schema (C19).      *)
EXTENDS Naturals, Sequences, FiniteSets, TLC

CONSTANTS Statuses          \* set of HTTP status codes explored

\* ---- abstract responses -------------------------------------------------------------
Parse   == {"empty", "nonjson", "badutf8", "json"}
Top     == {"object", "array", "number", "string", "null", "bool"}
DataK   == {"absent", "null", "object"}
ErrK    == {"absent", "empty", "one", "two", "two_same", "three_mixed"}
  \* two_same: two errors with the SAME message (differing in path / locations / extensions when the detail is full,
  \* plainly repeated when it is message-only); three_mixed: first and third share the message.  The multi-error carries
  \* every reported error, repeated or not.
Detail  == {"msg", "full"}            \* error objects: message only / message+locations+path+extensions

Bodies ==
  [parse : {"empty", "nonjson", "badutf8"}, top : {"object"}, data : {"absent"}, errors : {"absent"},
   extra : {FALSE}, detail : {"msg"}]
  \cup [parse : {"json"}, top : Top \ {"object"}, data : {"absent"}, errors : {"absent"},
        extra : {FALSE}, detail : {"msg"}]
  \cup [parse : {"json"}, top : {"object"}, data : DataK, errors : ErrK, extra : BOOLEAN, detail : Detail]

Responses == [status : Statuses, body : Bodies]

IsSuccess(s) == s >= 200 /\ s <= 299
NErrors(b) == CASE b.errors = "one" -> 1 [] b.errors \in {"two", "two_same"} -> 2 [] b.errors = "three_mixed" -> 3 [] OTHER -> 0

\* ---- the documented classification (declarative; taken from the property statement) ---
Documented(r) ==
  IF ~IsSuccess(r.status) THEN [kind |-> "http_error", status |-> r.status]
  ELSE IF r.body.parse # "json" \/ r.body.top # "object"
          \/ (r.body.data = "absent" /\ r.body.errors = "absent")
       THEN [kind |-> "invalid_response"]
  ELSE IF NErrors(r.body) > 0
       THEN [kind |-> "multi_error", n |-> NErrors(r.body), data |-> r.body.data, detail |-> r.body.detail]
  ELSE [kind |-> "return", data |-> r.body.data]

\* ---- the implementation's decision chain --------------------------------------------
VARIABLES resp, step, outcome, json
vars == <<resp, step, outcome, json>>

None == [kind |-> "none"]

Init == /\ resp \in Responses
        /\ step = "status" /\ outcome = None /\ json = "unparsed"

\* if not response.is_success: raise GraphQLClientHttpError(status_code, response)
CheckStatus ==
  /\ step = "status"
  /\ IF ~IsSuccess(resp.status)
       THEN outcome' = [kind |-> "http_error", status |-> resp.status] /\ step' = "done"
       ELSE outcome' = outcome /\ step' = "parse"
  /\ UNCHANGED <<resp, json>>

\* try: response.json() except ValueError: raise GraphQLClientInvalidResponseError
ParseJson ==
  /\ step = "parse"
  /\ IF resp.body.parse # "json"
       THEN outcome' = [kind |-> "invalid_response"] /\ step' = "done" /\ json' = json
       ELSE outcome' = outcome /\ step' = "shape" /\ json' = resp.body.top
  /\ UNCHANGED resp

\* not a dict, or neither "data" nor "errors" in it
CheckShape ==
  /\ step = "shape"
  /\ IF json # "object" \/ (resp.body.data = "absent" /\ resp.body.errors = "absent")
       THEN outcome' = [kind |-> "invalid_response"] /\ step' = "done"
       ELSE outcome' = outcome /\ step' = "errors"
  /\ UNCHANGED <<resp, json>>

\* if errors: raise GraphQLClientGraphQLMultiError.from_errors_dicts(errors, data)
CheckErrors ==
  /\ step = "errors"
  /\ IF NErrors(resp.body) > 0
       THEN outcome' = [kind |-> "multi_error", n |-> NErrors(resp.body), data |-> resp.body.data,
                        detail |-> resp.body.detail] /\ step' = "done"
       ELSE outcome' = outcome /\ step' = "return"
  /\ UNCHANGED <<resp, json>>

\* return data
ReturnData ==
  /\ step = "return"
  /\ outcome' = [kind |-> "return", data |-> resp.body.data] /\ step' = "done"
  /\ UNCHANGED <<resp, json>>

Next == CheckStatus \/ ParseJson \/ CheckShape \/ CheckErrors \/ ReturnData
Spec == Init /\ [][Next]_vars

\* ---- properties ---------------------------------------------------------------------
TypeOK == step \in {"status", "parse", "shape", "errors", "return", "done"}

OutcomeIsDocumented == step = "done" => outcome = Documented(resp)
ExactlyOne == (step = "done") <=> (outcome # None)
NoDataWhenErrors == (step = "done" /\ NErrors(resp.body) > 0) => outcome.kind # "return"
OnlyDocumentedKinds == outcome.kind \in {"none", "http_error", "invalid_response", "multi_error", "return"}
\* the outcome, once decided, never changes (exactly one outcome per response)
OutcomeStable == [][outcome # None => outcome' = outcome]_vars
\* JSON is never parsed for a non-2xx response (precedence of the status check)
StatusFirst == json # "unparsed" => IsSuccess(resp.status)

\* ---- what the generated method does with the outcome --------------------------------
\* return X.model_validate(data): a model for an object, pydantic's error for null/absent data
MethodOutcome(r) ==
  LET o == Documented(r) IN
  IF o.kind = "return" THEN (IF o.data = "object" THEN [kind |-> "model", data |-> "object"]
                             ELSE [kind |-> "validation_error"])
  ELSE o
=============================================================================
