---------------------------- MODULE WsProtocol_MC ----------------------------
(* Exhaustive configurations of WsProtocol, and export of every terminal state (the predicted *)
(* sent frames / yields / outcome of each frame sequence) for the spec -> code replay leg.     *)
EXTENDS WsProtocol, TLCExt

AllKinds == JudgedKinds \cup ObservedOnlyKinds
BothPayloads == BOOLEAN
OnePayload == {FALSE}
AllVarModes == {"none", "empty", "filtered", "allunset"}
OneVarMode == {"filtered"}

\* printed once per terminal state; parsed by harness (tuples only, no records)
Export == Terminal => PrintT(<<"T", inbox, cfg.payload, cfg.vars, sent, yielded, closed, result>>)
=============================================================================
