"""In-package driver: call every listed generated method once and return the request body it sends (query, operationName,
variables).  The transport answers with an empty data object; a ValidationError of the result model is irrelevant here."""
import asyncio
import inspect
import json

import httpx

from .util import load_payload, emit, import_pkg


def main():
    P = load_payload()
    pkg = import_pkg(P["package"])
    last = {}

    def handler(request):
        last["body"] = json.loads(request.content)
        return httpx.Response(200, json={"data": P.get("data", {})})
    is_async = P.get("async", False)
    if is_async:
        loop = asyncio.new_event_loop()
        hc = httpx.AsyncClient(transport=httpx.MockTransport(handler))
    else:
        hc = httpx.Client(transport=httpx.MockTransport(handler))
    ckw = {"ws_url": "ws://x"} if (is_async and P.get("subscriptions")) else {}
    client = getattr(pkg, P.get("client_name") or "Client")(url="http://x", http_client=hc, **ckw)

    class _WS:                       # scripted graphql-transport-ws peer for subscription methods
        def __init__(self):
            self.q = [json.dumps({"type": "connection_ack"})]

        async def send(self, msg):
            d = json.loads(msg)
            if d.get("type") == "subscribe":
                last["body"] = d.get("payload")
                self.q.append(json.dumps({"type": "complete", "id": d.get("id")}))

        async def recv(self):
            return self.q.pop(0)

        def __aiter__(self):
            return self

        async def __anext__(self):
            if not self.q:
                raise StopAsyncIteration
            return self.q.pop(0)

        async def close(self, *a, **k):
            self.q = []

    class _Conn:
        def __init__(self, *a, **k):
            self.ws = _WS()

        async def __aenter__(self):
            return self.ws

        async def __aexit__(self, *a):
            return False
    methods = {m.replace("_", "").lower(): m for m in dir(client) if not m.startswith("_")}
    out = {}
    for name in P["ops"]:
        last.clear()
        rec = {}
        try:
            meth = getattr(client, methods[name.replace("_", "").lower()])
            kwargs = {}
            for pn, p in inspect.signature(meth).parameters.items():
                if pn != "kwargs" and p.default is inspect.Parameter.empty:
                    kwargs[pn] = (P.get("args") or {}).get(pn, True)
            try:
                if inspect.isasyncgenfunction(meth):
                    import sys as _sys
                    _sys.modules[type(client).__mro__[1].__module__].ws_connect = _Conn

                    async def consume():
                        async for _ in meth(**kwargs):
                            pass
                    loop.run_until_complete(consume())
                else:
                    r = meth(**kwargs)
                    if is_async:
                        loop.run_until_complete(r)
            except Exception as ex:  # noqa
                rec["call_exc"] = type(ex).__name__
            rec["body"] = last.get("body")
        except Exception as ex:  # noqa
            rec["error"] = f"{type(ex).__name__}: {ex}"[:300]
        out[name] = rec
    consts = {}
    if P.get("operations_module"):
        try:
            om = import_pkg(P["package"] + "." + P["operations_module"])
            consts = {k: v for k, v in vars(om).items() if k.isupper() and isinstance(v, str)}
        except Exception as ex:  # noqa
            consts = {"@error": f"{type(ex).__name__}: {ex}"[:300]}
    emit({"ops": out, "constants": consts})


if __name__ == "__main__":
    main()
