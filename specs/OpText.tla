------------------------------- MODULE OpText -------------------------------
(* C02 (s) -- literal fidelity: how the text of an operation travels from print_ast() into Python source and back.      *)
(* Code: client._generate_operation_str_assign (split into per-line constants), ast.unparse (repr of each constant,      *)
(* adjacent literals), utils.format_multiline_strings / convert_to_multiline_string / is_safe_to_convert_to_multiline_  *)
(* string (regex rewrite into one triple-quoted literal), then the Python compiler evaluating the literal again;         *)
(* contrib.extract_operations does the same with offset 0.                                                                *)
(* The text of one GraphQL string literal is a sequence over a token alphabet; every stage is an action.                 *)
EXTENDS Naturals, Sequences, FiniteSets, TLC

CONSTANTS MaxLen,            \* tokens per literal
          Tokens,            \* the alphabet explored
          Deviations         \* {} as fixed; "splitlines", "no_guard", "guard_ignores_escaped_backslash" = historical / seeded

\* alphabet (GraphQL source of the token in a "..." literal):
\*  p plain text "ab"         n_ plain text starting with the letter n     sp leading space      hs '#'    eqs '='
\*  uni a raw non-ASCII letter   sq a single quote '      en the escape \n      eb the escape \\      eq_ the escape \"
\*  ue the escape A      tb the escape \t      us a raw U+2028 (a line separator for str.splitlines, not for GraphQL)
HasBackslash(t) == t \in {"en", "eb", "eq_", "ue", "tb"}
Literals == UNION {[1..n -> Tokens] : n \in 1..MaxLen}

VARIABLES lit,        \* the literal as authored (sequence of tokens)
          stage,      \* "printed" | "split" | "unparsed" | "rewritten" | "evaluated"
          text,       \* the current representation: sequence of tokens, with "NL" where a real line break got in and
                      \* "GONE" marks (dropped characters are simply absent)
          joined      \* TRUE iff the literals were joined into one triple-quoted string
vars == <<lit, stage, text, joined>>

Init == lit \in Literals /\ stage = "printed" /\ text = lit /\ joined = FALSE

\* operation_str.split("\n")  (historically .splitlines(), which also breaks on U+2028, U+0085, form feed ...)
Split ==
  /\ stage = "printed" /\ stage' = "split"
  /\ text' = IF "splitlines" \in Deviations THEN [i \in 1..Len(text) |-> IF text[i] = "us" THEN "NL" ELSE text[i]] ELSE text
  /\ UNCHANGED <<lit, joined>>
\* ast.unparse: repr() of every constant; the value is unchanged, only its spelling
Unparse == stage = "split" /\ stage' = "unparsed" /\ UNCHANGED <<lit, text, joined>>

\* is_safe_to_convert_to_multiline_string: no quote, no backslash in the value, only printable characters
UnsafeTok(t) == t = "sq" \/ HasBackslash(t) \/ t = "us"
EscapedBackslashThenN(s) == \E i \in 1..(Len(s) - 1) : s[i] = "eb" /\ s[i + 1] = "n_"
Safe(s) ==
  IF "no_guard" \in Deviations THEN TRUE
  ELSE IF "guard_ignores_escaped_backslash" \in Deviations
       THEN \A i \in 1..Len(s) : s[i] \in {"eb", "eq_", "ue", "tb"} \/ ~UnsafeTok(s[i])
       ELSE \A i \in 1..Len(s) : ~UnsafeTok(s[i])
\* convert_to_multiline_string on the repr text: '\\n' -> line break, "'" deleted
RECURSIVE Rewrite(_)
Rewrite(s) ==
  IF s = <<>> THEN <<>>
  ELSE LET h == s[1]  r == Rewrite(Tail(s)) IN
       CASE h = "sq" -> r                                   \* the quote is deleted
         [] h = "en" -> <<"NL">> \o r                       \* the escape becomes a real line break inside the literal
         [] h = "eb" /\ Len(s) > 1 /\ s[2] = "n_" -> <<"BS", "NL", "n_tail">> \o Rewrite(Tail(Tail(s)))
         [] OTHER -> <<h>> \o r
FormatMultiline ==
  /\ stage = "unparsed" /\ stage' = "rewritten"
  /\ IF Safe(text) THEN text' = Rewrite(text) /\ joined' = TRUE
                   ELSE text' = text /\ joined' = FALSE            \* the adjacent literals are kept as they are
  /\ UNCHANGED lit
\* the Python compiler evaluates the literal(s) again
PyEval == stage = "rewritten" /\ stage' = "evaluated" /\ UNCHANGED <<lit, text, joined>>
Next == Split \/ Unparse \/ FormatMultiline \/ PyEval
Spec == Init /\ [][Next]_vars

\* ---- properties -------------------------------------------------------------------------------------------
\* the string the client sends contains the literal exactly as authored
LiteralPreserved == stage = "evaluated" => text = lit
\* a literal that needs any escaping is never squeezed through the textual rewrite
UnsafeNeverJoined == (stage \in {"rewritten", "evaluated"} /\ \E i \in 1..Len(lit) : UnsafeTok(lit[i])) => ~joined
=============================================================================
