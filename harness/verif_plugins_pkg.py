"""A plugin MODULE (enabled by module name, not by class path: `plugins = ["harness.verif_plugins_pkg"]`) exposing several
plugin classes that hook the same events non-commutatively.  Used by C10: the order in which the classes are discovered
decides the output, so it must not depend on the hash seed."""
from graphql import GraphQLDirective, DirectiveLocation, GraphQLSchema

from ariadne_codegen.plugins.base import Plugin

__all__ = ["HeaderOnePlugin", "HeaderTwoPlugin", "HeaderThreePlugin", "DirectiveAuditPlugin", "DirectiveCachePlugin"]


class HeaderOnePlugin(Plugin):
    def get_file_comment(self, comment, code, source=None):
        return comment + "# one\n"


class HeaderTwoPlugin(Plugin):
    def get_file_comment(self, comment, code, source=None):
        return comment + "# two\n"


class HeaderThreePlugin(Plugin):
    def generate_init_code(self, generated_code):
        return generated_code + "# three\n"

    def get_file_comment(self, comment, code, source=None):
        return comment + "# three\n"


def _with_directive(schema: GraphQLSchema, name: str) -> GraphQLSchema:
    kw = schema.to_kwargs()
    kw["directives"] = tuple(kw["directives"]) + (GraphQLDirective(name, [DirectiveLocation.FIELD_DEFINITION]),)
    return GraphQLSchema(**kw)


class DirectiveAuditPlugin(Plugin):
    def process_schema(self, schema):
        return _with_directive(schema, "audit")


class DirectiveCachePlugin(Plugin):
    def process_schema(self, schema):
        return _with_directive(schema, "cache")
