SPECIFICATION TraceSpec
CONSTANTS MaxFrames <- TraceMax
 Kinds <- TraceKinds
 InitPayloads <- TracePayloads
 VarModes <- TraceVarModes
INVARIANT RootLifecycle
INVARIANT OneSpanPerFrame
INVARIANT SpanOrder
INVARIANT ExcOnlyWhereRaised
CONSTRAINT Reached
POSTCONDITION Accepted
CHECK_DEADLOCK FALSE
