---------------------------- MODULE SchemaSource_MC ----------------------------
EXTENDS SchemaSource, Json, IOUtils, SequencesExt
\* file slots: three extensions, nested directories, and two files with the SAME NAME in different directories
ThreeFiles == {"a/x.graphql", "b/sub/y.graphqls", "z.gql", "b/x.graphql"}
NoDev == {}
AsBuilt == {"defaults_from_ast_only"}
PartSeq == SetToSeq([Defs -> ThreeFiles])
RespSeq == LET rs == SetToSeq(Responses) IN [i \in 1..Len(rs) |-> [url |-> rs[i].url, status |-> rs[i].status, body |-> rs[i].body, outcome |-> IntrospectOutcome(rs[i])]]
ASSUME IOEnv.OUT_FILE = "" \/ JsonSerialize(IOEnv.OUT_FILE, [partitions |-> PartSeq, responses |-> RespSeq])
=============================================================================
