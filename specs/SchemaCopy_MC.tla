---------------------------- MODULE SchemaCopy_MC ----------------------------
EXTENDS SchemaCopy, Json, IOUtils, SequencesExt
Feats == {"iface_of_iface", "custom_roots", "mutation", "subscription", "union", "enum_deprecated", "input_defaults", "arg_defaults",
          "descriptions", "deprecations", "repeatable_directive", "directive_args", "specified_by", "nested_wrappers", "tricky_strings",
          "numbers", "schema_description", "object_defaults", "directive_named_like_codegen_helper"}
NeedsOf == [ iface_of_iface |-> {<<"interface", "interfaces">>, <<"object", "interfaces">>},
             custom_roots |-> {<<"schema", "query">>, <<"schema", "mutation">>},
             mutation |-> {<<"schema", "mutation">>}, subscription |-> {<<"schema", "subscription">>},
             union |-> {<<"union", "types">>, <<"union", "description">>},
             enum_deprecated |-> {<<"enum_value", "deprecation_reason">>, <<"enum_value", "value">>, <<"enum", "values">>},
             input_defaults |-> {<<"input_field", "default_value">>, <<"input", "fields">>},
             arg_defaults |-> {<<"argument", "default_value">>, <<"field", "args">>},
             descriptions |-> {<<"object", "description">>, <<"field", "description">>, <<"argument", "description">>,
                               <<"enum_value", "description">>, <<"input_field", "description">>, <<"scalar", "description">>,
                               <<"interface", "description">>, <<"enum", "description">>, <<"input", "description">>, <<"directive", "description">>},
             deprecations |-> {<<"field", "deprecation_reason">>, <<"argument", "deprecation_reason">>, <<"input_field", "deprecation_reason">>},
             repeatable_directive |-> {<<"directive", "is_repeatable">>, <<"directive", "locations">>},
             directive_args |-> {<<"directive", "args">>, <<"argument", "default_value">>},
             specified_by |-> {<<"scalar", "specified_by_url">>},
             nested_wrappers |-> {<<"field", "type">>, <<"argument", "type">>},
             tricky_strings |-> {<<"argument", "default_value">>, <<"field", "description">>},
             numbers |-> {<<"argument", "default_value">>},
             schema_description |-> {<<"schema", "description">>},
             object_defaults |-> {<<"input_field", "default_value">>, <<"argument", "default_value">>},
             \* the schema declares its OWN directives called mixin / include-like names: they are part of the schema
             directive_named_like_codegen_helper |-> {<<"schema", "directives">>, <<"directive", "args">>, <<"directive", "locations">>} ]
CopiedAsBuilt == UNION {NeedsOf[f] : f \in Feats} \cup Base
AllFormats == {"py", "graphql", "gql"}
K == IF IOEnv.MAXON = "3" THEN 3 ELSE IF IOEnv.MAXON = "18" THEN 18 ELSE 2
Vectors == SetToSeq({SetToSeq(S) : S \in {X \in SUBSET Feats : Cardinality(X) <= K}})
ASSUME IOEnv.OUT_FILE = "" \/ JsonSerialize(IOEnv.OUT_FILE, Vectors)
=============================================================================
