"""C09 -- pruning unused inputs and enums never removes something needed.

leg 1: TLC checks Pruning (phases of generate() as actions over the used-inputs / used-enums accumulators) for all
       dependency graphs x operation sets x flag combinations within the bound; a deviating phase order must violate
       EnumsWrittenLast (anti-vacuity).
leg 2: a seeded sample of TLC's terminal states (case + predicted retained sets) is rendered to a real schema, queries
       and configuration; pruned and unpruned packages are generated; class sets, per-class text, and imports of every
       module in a fresh interpreter are compared.
leg 3: the probe trace (accumulators after every add_operation and every phase, in the observed order) is validated by
       Pruning_Trace: the invariants decide whether the observed order is a good one.
"""
import ast
import json

from ..common import (Verdict, run_tlc, tlc_must_pass, validate_traces_parallel, pmap, Machinery, printed_tuples, run_py, seed)
from ..gen import write_job, generate

PHASES = {"_generate_input_types": "inputs", "_generate_result_types": "results", "_generate_fragments": "fragments",
          "_copy_files": "copy", "_generate_client": "client", "_generate_enums": "enums", "_generate_init": "init"}
INVS = ["RetainedInputsExact", "RetainedEnumsExact", "ImportsResolve"]


def cfg(nin, nen, maxops, flagsets, orders="TheCodeOrder", export=0, invs=INVS, prop=True):
    return (f"SPECIFICATION Spec\nCONSTANTS NIn = {nin}\n NEn = {nen}\n MaxOps = {maxops}\n FlagSets <- {flagsets}\n"
            f" PhaseOrders <- {orders}\n" + (f" SampleOneIn <- Sample{export}\n" if export else "")
            + "".join(f"INVARIANT {i}\n" for i in invs) + ("INVARIANT Export\n" if export else "")
            + ("PROPERTY EnumsWrittenLast\n" if prop else "") + "CHECK_DEADLOCK FALSE\n")


TRACE_CFG = """SPECIFICATION TraceSpec
CONSTANTS NIn = {nin}
 NEn = {nen}
 MaxOps = 3
 FlagSets <- TraceFlags
 PhaseOrders <- TraceOrders
INVARIANT RetainedInputsExact
INVARIANT RetainedEnumsExact
INVARIANT ImportsResolve
PROPERTY EnumsWrittenLast
CONSTRAINT Reached
POSTCONDITION Accepted
CHECK_DEADLOCK FALSE
"""


def render(case):
    nin, nen = len(case["deps"]), case["nen"]
    sdl = []
    for e in range(1, nen + 1):
        sdl.append(f"enum E{e} {{ A{e} B{e} }}")
    # (a non-null edge makes a cyclic input type invalid: InK! inside a cycle of non-null edges cannot be constructed; the
    #  shapes below put "!" on list items / lists only, except shape 1 which is used for acyclic positions i < j)
    for i in range(1, nin + 1):
        # the edge In_i -> In_j is written with a different wrapper each time: plain, non-null, list, nested list
        shape = ["In{j}", "In{j}!", "[In{j}!]", "[In{j}]!", "[[In{j}!]]"]
        fields = ["  v: Int"] + [f"  r{j}: " + shape[((i + 2 * j) % len(shape)) if not ((i + 2 * j) % len(shape) == 1 and j <= i) else 0].format(j=j) for j in case["deps"][i - 1]]
        for n, e in enumerate(case["inEnums"][i - 1]):
            fields.append(f"  e{e}: E{e}" + (f" = A{e}" if n == 0 else ""))       # first one only as a default value user
        sdl.append(f"input In{i} {{\n" + "\n".join(fields) + "\n}")
    sdl.append("type R { id: ID! " + " ".join(f"e{e}: E{e}" for e in range(1, nen + 1)) + " }")
    args = [f"i{i}: In{i}" for i in range(1, nin + 1)] + [f"q{e}: E{e}" for e in range(1, nen + 1)]
    sdl.append("type Query { f(" + ", ".join(args) + "): R }")
    qs = []
    for k, op in enumerate(case["ops"], start=1):
        vs = [f"$i{i}: In{i}" for i in op["varIn"]] + [f"$q{e}: E{e}" for e in op["varEn"]]
        ar = [f"i{i}: $i{i}" for i in op["varIn"]] + [f"q{e}: $q{e}" for e in op["varEn"]]
        sel = ["id"] + [f"r{e}: e{e}" for e in op["resEn"]] + ([f"...Fr{k}"] if op["fragEn"] else [])
        qs.append(f"query Op{k}" + (f"({', '.join(vs)})" if vs else "") + " {\n  f" + (f"({', '.join(ar)})" if ar else "")
                  + " {\n    " + "\n    ".join(sel) + "\n  }\n}")
        if op["fragEn"]:
            qs.append(f"fragment Fr{k} on R {{\n  " + "\n  ".join(f"g{e}: e{e}" for e in op["fragEn"]) + "\n}")
    if not qs:
        qs.append("query Op0 {\n  f {\n    id\n  }\n}")
    return "\n\n".join(sdl) + "\n", "\n\n".join(qs) + "\n"


def classes(path):
    if not path.exists():
        return None
    tree = ast.parse(path.read_text())
    return {n.name: ast.unparse(n) for n in tree.body if isinstance(n, ast.ClassDef)}


IMPORT_ALL = r'''
import sys, importlib, pkgutil, json
sys.path.insert(0, %r)
errs = []
try:
    pkg = importlib.import_module("gclient")
    for m in pkgutil.iter_modules(pkg.__path__):
        try:
            importlib.import_module("gclient." + m.name)
        except Exception as ex:
            errs.append(m.name + ": " + type(ex).__name__ + ": " + str(ex)[:200])
except Exception as ex:
    errs.append("__init__: " + type(ex).__name__ + ": " + str(ex)[:200])
print("@@" + json.dumps(errs))
'''


def cases_from(res, nin, nen):
    out = []
    for t in printed_tuples(res.out, "P"):
        _, deps, inen, ops, ai, ae, winp, wen = t
        out.append({"deps": deps, "inEnums": inen, "ops": ops, "allInputs": ai, "allEnums": ae, "pred_inputs": winp,
                    "pred_enums": wen, "nin": nin, "nen": nen})
    return out


def nontrivial(c):
    return any(c["deps"]) and not c["allInputs"] and len(set(sum([o["varIn"] for o in c["ops"]], []))) < c["nin"]


def run(tier, work, replay=None):
    v = Verdict("C09", tier)
    q = tier == "quick"
    jobs = [("a", 2, 2, dict(cfg=cfg(2, 2, 1, "AllFlags", export=2000 if q else 100), workers=6)),
            ("b", 2, 1, dict(cfg=cfg(2, 1, 2, "PruneBoth", export=400 if q else 40), workers=5)),
            ("c", 3, 1, dict(cfg=cfg(3, 1, 1, "PruneBoth", export=800 if q else 100), workers=5)),
            ("dev", 2, 1, dict(cfg=cfg(2, 1, 1, "PruneBoth", orders="EnumsBeforeClient", invs=[]), workers=2))]
    if not q:
        jobs.append(("d", 3, 2, dict(cfg=cfg(3, 2, 1, "PruneBoth", export=2000), workers=16)))

    def tj(j):
        name, nin, nen, kw = j
        c = kw.pop("cfg")
        return name, (nin, nen, run_tlc("Pruning_MC", c, work.sub("tlc_" + name), timeout=3400, **kw))
    rr = dict(pmap(tj, jobs, workers=4))
    cases = []
    for name, (nin, nen, res) in rr.items():
        if name == "dev":
            if "EnumsWrittenLast" not in " ".join(res.property_violated) and "EnumsWrittenLast" not in res.out:
                raise Machinery("anti-vacuity: the deviating phase order does not violate EnumsWrittenLast")
            continue
        tlc_must_pass(res, f"Pruning {name}")
        v.add_tlc(res, f"Pruning exhaustive NIn={nin} NEn={nen}")
        cases += cases_from(res, nin, nen)
    if len(cases) < 150:
        raise Machinery(f"too few exported cases: {len(cases)}")

    def one(ci):
        c = cases[ci]
        sdl, qs = render(c)
        out = {"ci": ci}
        # every third case with non-default module names (the generators take the names as parameters with defaults:
        # a call site that forgets to pass one works until the name is configured)
        ren = {"enums_module_name": "my_enums", "input_types_module_name": "my_inputs", "fragments_module_name": "my_frags"} if ci % 3 == 1 else {}
        f_in, f_en = ren.get("input_types_module_name", "input_types") + ".py", ren.get("enums_module_name", "enums") + ".py"
        for variant, opts in (("pruned", {"include_all_inputs": c["allInputs"], "include_all_enums": c["allEnums"]}),
                              ("full", {"include_all_inputs": True, "include_all_enums": True})):
            job = work.dir / f"job_{ci}_{variant}"
            write_job(job, schema=sdl, queries=qs, package="gclient", options=dict(opts, async_client=False, **ren))
            r = generate(job, probe=(variant == "pruned"))
            out[variant] = {"r": r, "inputs": classes(job / "gclient" / f_in), "enums": classes(job / "gclient" / f_en)}
            if variant == "pruned" and r["exc_class"] is None:
                p = run_py(["-c", IMPORT_ALL % str(job)], cwd=job)
                line = [ln for ln in p.stdout.splitlines() if ln.startswith("@@")]
                out["import_errors"] = json.loads(line[-1][2:]) if line else ["driver: " + p.stderr[-300:]]
            import shutil
            shutil.rmtree(job, ignore_errors=True)
        out["sdl"], out["queries"] = sdl, qs
        return out

    outs = pmap(one, range(len(cases)))
    traces, owners = [], []
    for o in outs:
        c = cases[o["ci"]]
        feats = {"nin": c["nin"], "nen": c["nen"], "allInputs": c["allInputs"], "allEnums": c["allEnums"], "nops": len(c["ops"]),
                 "renamed_modules": o["ci"] % 3 == 1}
        detail = {"schema": o["sdl"], "queries": o["queries"]}
        pr, fu = o["pruned"], o["full"]
        if pr["r"]["exc_class"] or fu["r"]["exc_class"]:
            v.violation(feats, f"gen_crash:{pr['r']['exc_class'] or fu['r']['exc_class']}", dict(detail, message=pr["r"]["exc_msg"] or fu["r"]["exc_msg"]))
            continue
        if o["import_errors"]:
            v.violation(feats, "pruned_package_does_not_load", dict(detail, errors=o["import_errors"]))
        got_in = sorted(int(n[2:]) for n in (pr["inputs"] or {}) if n.startswith("In"))
        got_en = sorted(int(n[1:]) for n in (pr["enums"] or {}) if n.startswith("E") and n[1:].isdigit())
        if got_in != c["pred_inputs"]:
            v.violation(feats, "retained_inputs_differ", dict(detail, got=got_in, expected=c["pred_inputs"]))
        if got_en != c["pred_enums"]:
            v.violation(feats, "retained_enums_differ", dict(detail, got=got_en, expected=c["pred_enums"]))
        for kind in ("inputs", "enums"):
            for n, txt in (pr[kind] or {}).items():
                if (fu[kind] or {}).get(n) != txt:
                    v.violation(feats, "retained_class_text_differs", dict(detail, cls=n))
        # ---- trace
        evs = [e for e in pr["r"]["events"] if isinstance(e, dict)]
        adds = [e for e in evs if e["e"] == "add_operation"]
        phs = [e for e in evs if e["e"] == "phase" and e["name"] in PHASES]
        if any("used_enums" not in e for e in adds + phs):
            raise Machinery("probe could not observe the used-enums accumulator")
        idx = lambda names, pfx: sorted({int(n[len(pfx):]) for n in names if n.startswith(pfx) and n[len(pfx):].isdigit()})
        tr = [{"e": "case", "deps": c["deps"], "inEnums": c["inEnums"], "ops": c["ops"], "allInputs": c["allInputs"],
               "allEnums": c["allEnums"], "order": [PHASES[e["name"]] for e in phs]}]
        if c["ops"]:
            for k, e in enumerate(adds, start=1):
                tr.append({"e": "add", "k": k, "used_enums": idx(e["used_enums"], "E"), "used_inputs": idx(e.get("used_inputs", []), "In"),
                           "arg_enums": idx(e.get("arg_enums", []), "E")})
        for e in phs:
            tr.append({"e": "phase", "name": PHASES[e["name"]], "used_enums": idx(e["used_enums"], "E")})
        tr.append({"e": "final", "inputs": got_in, "enums": got_en})
        traces.append(tr)
        owners.append((feats, detail, c))
    v.cov["evaluations"] = 2 * len(outs)
    rejected, inv = {}, []
    for (nin, nen) in sorted({(c["nin"], c["nen"]) for _, _, c in owners}):
        idxs = [k for k, (_, _, c) in enumerate(owners) if (c["nin"], c["nen"]) == (nin, nen)]
        rs, rej, iv = validate_traces_parallel("Pruning_Trace", TRACE_CFG.format(nin=nin, nen=nen), [traces[k] for k in idxs],
                                               work.sub(f"tv{nin}{nen}"), chunk_size=250)
        for r in rs:
            v.add_tlc(r, f"Pruning_Trace NIn={nin} NEn={nen}")
        rejected.update({idxs[a]: b for a, b in rej.items()})
        inv.extend((n, idxs[t] if t is not None else None) for n, t in iv)
    bad = set(rejected) | {t for _, t in inv if t is not None}
    for t in sorted(bad):
        feats, detail, c = owners[t]
        why = [i for i, tt in inv if tt == t]
        at = traces[t][rejected[t] - 1] if t in rejected and rejected[t] - 1 < len(traces[t]) else {}
        v.violation(feats, "trace_rejected:" + (",".join(why) or f"at:{at.get('e')}:{at.get('name', '')}"),
                    dict(detail, event=at, matched_prefix=rejected.get(t), trace=traces[t]))
    v.cov["traces_validated_against_impl"] = len(traces) - len(bad)
    v.cov["distinct_nontrivial"] = len([1 for c in cases if nontrivial(c)])
    v.cov["rule"] = ("cases = (input dependency digraph incl. cycles, enums per input, operations with variable / result / fragment "
                     "enums, flag combination): terminal states of Pruning sampled 1-in-N from the exhaustive TLC run; non-trivial = "
                     "graph with >=1 edge and >=1 prunable input while include_all_inputs is off")
    v.cov["exhaustive"] = False
    for tr, (feats, detail, c) in list(zip(traces, owners))[:3]:
        v.sample({"schema": detail["schema"], "queries": detail["queries"], "trace": tr})
    v.assumptions += ["accumulators observed through a harness-side wrapper around the generator's phases"]
    return v.finish()
