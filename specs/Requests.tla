------------------------------ MODULE Requests ------------------------------
(* C11 -- the request the bundled base clients put on the wire (execute / _process_variables / _convert_value /          *)
(* _get_files_from_variables.separate_files / _execute_json / _execute_multipart and their OpenTelemetry twins), for     *)
(* several calls that run interleaved on one client and may share caller-owned objects (a headers dict).                 *)
(* Part 1 is the sequential meaning of one call, part 2 the calls as processes with one step per await / statement.      *)
EXTENDS Naturals, Sequences, FiniteSets, TLC, SequencesExt

CONSTANTS NCalls,          \* concurrent calls on one client
          VarTrees,        \* the variables structures explored (see Trees below)
          HeaderModes,     \* how a call passes headers: "none" | "own" (fresh dict) | "own_ct" (fresh dict overriding
                           \* Content-Type) | "shared" (a dict the caller re-uses for several calls)
          OpNames,         \* subset of OpNameModes explored
          Reuse,           \* BOOLEAN or {FALSE}: may a later call pass the very same variables OBJECT as call 1 (a retry)?
          Deviations       \* {} as built; "in_place_nulling" = separate_files writes null into the containers it walks
                           \* instead of rebuilding them (seeded change C11b): plain dicts below the top level are the caller's

\* ---- part 1: variables trees ------------------------------------------------------------------------------
\* leaves: "s" scalar, "n" None, "e" enum member, "d" datetime, "u1" / "u2" Upload objects (identity matters),
\*         "m" a generated input model (dumped by alias, unset fields excluded), "mu" a model holding Upload u1
\* nodes : <<"L", t, ...>> list, <<"D", t, ...>> dict with keys k1, k2, ...
\* top   : <<"V", t1, t2>> the variables dict with keys v1, v2; "unset" (top level only) = the UNSET sentinel, "absent"
\* Every tree is a tuple whose first element is its tag: a leaf is <<tag>>, a node <<"L" | "D" | "V", child, ...>>.
LeafTags == {"s", "n", "e", "d", "u1", "u2", "m", "mu", "unset", "absent"}
IsLeaf(t) == t[1] \in LeafTags
IsUpload(t) == t[1] \in {"u1", "u2"}
Lf(tag) == <<tag>>
ToStr(i) == ToString(i)
KeyOf(t, i) == CASE t[1] = "L" -> ToStr(i - 1) [] t[1] = "D" -> "k" \o ToStr(i) [] OTHER -> "v" \o ToStr(i)

\* _convert_dict_to_json_serializable (drops UNSET at the top level) + _convert_value (model -> dict by alias)
RECURSIVE Convert(_)
Convert(t) ==
  IF t[1] = "m" THEN <<"D", Lf("s"), Lf("s")>>          \* {"a": 1, "camelCase": 1}: plain data after model_dump
  ELSE IF t[1] = "mu" THEN <<"D", Lf("u1"), Lf("s")>>    \* {"file": <Upload u1>, "name": ...}
  ELSE IF IsLeaf(t) THEN t
  ELSE IF t[1] = "L" THEN <<"L">> \o [i \in 1..(Len(t) - 1) |-> Convert(t[i + 1])]
  ELSE t                                                  \* plain dicts are passed through unchanged
TopConvert(t) == <<"V">> \o [i \in 1..(Len(t) - 1) |-> IF t[i + 1][1] \in {"unset", "absent"} THEN Lf("absent") ELSE Convert(t[i + 1])]

\* separate_files: depth-first, lists and dicts in order; returns the tree with every Upload replaced by null
RECURSIVE Nulled(_)
Nulled(t) == IF IsUpload(t) THEN Lf("n") ELSE IF IsLeaf(t) THEN t
             ELSE <<t[1]>> \o [i \in 1..(Len(t) - 1) |-> Nulled(t[i + 1])]
\* what in-place nulling does to the CALLER's object: the top-level dict, lists directly in it and model dumps are fresh
\* copies, every plain dict (and everything inside it) is the caller's own container
RECURSIVE NulledPlain(_)
NulledPlain(t) == IF IsLeaf(t) THEN t
                  ELSE IF t[1] = "D" THEN Nulled(t)
                  ELSE <<t[1]>> \o [i \in 1..(Len(t) - 1) |-> NulledPlain(t[i + 1])]
\* all (path, upload) occurrences in depth-first order
RECURSIVE Occ(_, _)
Occ(path, t) ==
  IF IsUpload(t) THEN << <<path, t[1]>> >>
  ELSE IF IsLeaf(t) THEN <<>>
  ELSE LET RECURSIVE Go(_)
           Go(i) == IF i > Len(t) THEN <<>>
                    ELSE (IF t[i][1] = "absent" THEN <<>> ELSE Occ(path \o "." \o KeyOf(t, i - 1), t[i])) \o Go(i + 1)
       IN Go(2)
\* files_list: distinct uploads in order of first occurrence; files_map: index -> paths
FilesList(occ) == LET RECURSIVE Go(_, _)
                      Go(i, acc) == IF i > Len(occ) THEN acc
                                    ELSE Go(i + 1, IF occ[i][2] \in Range(acc) THEN acc ELSE Append(acc, occ[i][2]))
                  IN Go(1, <<>>)
FilesMap(occ) == LET fl == FilesList(occ) IN
                 [i \in 1..Len(fl) |-> SelectSeq([j \in 1..Len(occ) |-> IF occ[j][2] = fl[i] THEN occ[j][1] ELSE "-"],
                                                 LAMBDA p : p # "-")]

\* the request a call with these arguments must produce (the statement + the GraphQL multipart request specification)
Wire(vars_, hdr) ==
  LET conv == TopConvert(vars_)
      occ == Occ("variables", conv) IN
  IF occ = <<>>
    THEN [kind |-> "json", vars |-> conv, map |-> <<>>, files |-> <<>>,
          ctype |-> IF hdr = "own_ct" THEN "caller" ELSE "application/json",
          extra |-> IF hdr = "none" THEN "none" ELSE "caller_headers"]
    ELSE [kind |-> "multipart", vars |-> Nulled(conv), map |-> FilesMap(occ), files |-> FilesList(occ),
          ctype |-> IF hdr = "own_ct" THEN "caller" ELSE "multipart/form-data",
          extra |-> IF hdr = "none" THEN "none" ELSE "caller_headers"]

\* properties of the sequential meaning (checked for every tree)
RECURSIVE Uploads(_)
Uploads(t) == IF IsUpload(t) THEN {t[1]} ELSE IF IsLeaf(t) THEN {} ELSE UNION {Uploads(t[i]) : i \in 2..Len(t)}
MultipartSpec(vars_) ==
  LET w == Wire(vars_, "none")  conv == TopConvert(vars_) IN
  /\ (w.kind = "multipart") <=> (Uploads(conv) # {})
  /\ Uploads(w.vars) = {}                                                     \* every file position is null in operations
  /\ Range(w.files) = Uploads(conv) /\ Len(w.files) = Cardinality(Uploads(conv))  \* each distinct Upload sent once
  /\ Len(w.map) = Len(w.files)
  /\ \A i \in 1..Len(w.map) : w.map[i] # <<>>
  /\ LET allp == UNION {Range(w.map[i]) : i \in 1..Len(w.map)}  occ == Occ("variables", conv) IN
     allp = {occ[j][1] : j \in 1..Len(occ)}                                   \* map lists exactly the file paths

\* ---- part 2: calls as processes --------------------------------------------------------------------------
Calls == 1..NCalls
NoReq == [kind |-> "none", vars |-> <<>>, map |-> <<>>, files |-> <<>>, ctype |-> "-", extra |-> "-"]
\* the operation name is a separate argument of execute(): given ("named"), passed as None, or omitted; the body's
\* operationName member is the given name, or JSON null when there is none -- whichever client, tracer or not
OpNameModes == {"named", "none", "omitted"}
WireOpName(m) == IF m = "named" THEN "named" ELSE "null"
VARIABLES args,         \* per call: [vars, hdr, reuse, opname]; reuse = the call passes the same variables object as call 1
          callerVars,   \* per call: the caller's variables object as the caller sees it NOW (identity: Obj(c))
          pc,           \* per call: "start" | "processed" | "sent" | "done"
          local,        \* per call: what _process_variables returned (call-local state)
          wire,         \* per call: the request handed to httpx
          sharedHdr,    \* the caller's re-used headers dict: has the client written into it?
          outcome       \* per call: whose response the call returned (0 = still pending)
vars == <<args, callerVars, pc, local, wire, sharedHdr, outcome>>
Obj(c) == IF args[c].reuse THEN 1 ELSE c

Init ==
  /\ args \in {a \in [Calls -> [vars : VarTrees, hdr : HeaderModes, reuse : Reuse, opname : OpNames]] :
                  ~a[1].reuse /\ \A c \in Calls : a[c].reuse => a[c].vars = a[1].vars}
  /\ callerVars = [c \in Calls |-> args[c].vars]
  /\ pc = [c \in Calls |-> "start"] /\ local = [c \in Calls |-> NoReq] /\ wire = [c \in Calls |-> NoReq]
  /\ sharedHdr = "clean" /\ outcome = [c \in Calls |-> 0]

\* processed_variables, files, files_map = self._process_variables(variables)
\* (reads the object as it is NOW; as built nothing ever writes into it)
Process(c) == /\ pc[c] = "start"
              /\ local' = [local EXCEPT ![c] = Wire(callerVars[Obj(c)], args[c].hdr)]
              /\ callerVars' = IF "in_place_nulling" \in Deviations
                                THEN [callerVars EXCEPT ![Obj(c)] = NulledPlain(@)] ELSE callerVars
              /\ pc' = [pc EXCEPT ![c] = "processed"]
              /\ UNCHANGED <<args, wire, sharedHdr, outcome>>
\* self.http_client.post(...): the request is built from call-local state only; the caller's dict is copied, not written
Send(c) == /\ pc[c] = "processed"
           /\ wire' = [wire EXCEPT ![c] = local[c]]
           /\ pc' = [pc EXCEPT ![c] = "sent"]
           /\ UNCHANGED <<args, callerVars, local, sharedHdr, outcome>>
Return(c) == /\ pc[c] = "sent"
             /\ outcome' = [outcome EXCEPT ![c] = c]
             /\ pc' = [pc EXCEPT ![c] = "done"]
             /\ UNCHANGED <<args, callerVars, local, wire, sharedHdr>>
Next == \E c \in Calls : Process(c) \/ Send(c) \/ Return(c)
Spec == Init /\ [][Next]_vars

\* ---- properties ------------------------------------------------------------------------------------------
\* every request is a function of its own call's arguments, whatever the interleaving
NoInterference == \A c \in Calls : wire[c] # NoReq => wire[c] = Wire(args[c].vars, args[c].hdr)
OwnResponse == \A c \in Calls : outcome[c] # 0 => outcome[c] = c
\* the client never writes into objects the caller owns
CallerStateUntouched == sharedHdr = "clean"
CallerVarsUntouched == \A c \in Calls : callerVars[c] = args[c].vars
SpecHolds == \A c \in Calls : MultipartSpec(args[c].vars)
=============================================================================
