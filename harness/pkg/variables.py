"""In-package driver for C03 / C07 (argument side): call generated methods with schema-valid Python arguments and record
(1) what serialize was called with, (2) the variables JSON on the wire, (3) what a graphql-core resolver receives."""
import asyncio
import datetime
import inspect
import json

import httpx
from graphql import build_schema, graphql_sync, parse, validate

from .util import load_payload, emit, import_pkg
from ..varcore import DEFAULTS

WIDX = {"T": 0, "T!": 1, "[T]": 2, "[T]!": 3, "[T!]": 4, "[T!]!": 5, "[[T!]]": 6}


def leaf(kind, i, pkg, sm):
    if kind == "int":
        return 10 + i if i else 0
    if kind == "enum":
        return [pkg.Color.RED, pkg.Color.GREEN, getattr(pkg.Color, "in_")][(i - 1) % 3]
    if kind == "ser":
        return sm.Stamp(i)
    if kind == "native":
        return datetime.date(2020, 1, i)
    if kind == "raw":
        return {"r": i} if i else {}
    if kind == "input":
        return pkg.Leaf(x=i)
    raise ValueError(kind)


def wire_leaf(kind, i):
    return {"int": 10 + i if i else 0, "enum": ["RED", "GREEN", "in"][(i - 1) % 3], "ser": f"S:{i}", "native": f"2020-01-0{i or 9}",
            "raw": {"r": i} if i else {}, "input": {"x": i}}[kind]


def caller_value(w, state, kind, pkg, sm):
    L = lambda i: leaf(kind, i, pkg, sm)   # noqa
    if state in ("omitted", "none"):
        return None
    if state == "empty":
        return []
    if state == "val_falsy":
        return L(0) if w in ("T", "T!") else ([[L(0)]] if w == "[[T!]]" else [L(0), L(1)])
    if w in ("T", "T!"):
        return L(1)
    if w == "[[T!]]":
        return [[L(1), L(2)], [L(3)]]
    if state == "val_nullitem":
        return [L(1), None, L(2)]
    if state == "val_nullfirst":
        return [None, L(1), L(2)]
    return [L(1), L(2)]


def intended_wire(w, state, kind):
    W = lambda i: wire_leaf(kind, i)   # noqa
    if state == "none":
        return None
    if state == "empty":
        return []
    if state == "val_falsy":
        return W(0) if w in ("T", "T!") else ([[W(0)]] if w == "[[T!]]" else [W(0), W(1)])
    if w in ("T", "T!"):
        return W(1)
    if w == "[[T!]]":
        return [[W(1), W(2)], [W(3)]]
    if state == "val_nullitem":
        return [W(1), None, W(2)]
    if state == "val_nullfirst":
        return [None, W(1), W(2)]
    return [W(1), W(2)]


def abstract(val, kind):
    """observed wire value -> the spec's vocabulary: <<"w", i>>, <<"null">>, <<"L", ...>>, <<"garbage">>"""
    if val is None:
        return ["null"]
    if isinstance(val, list):
        return ["L"] + [abstract(x, kind) for x in val]
    for i in ((1, 2, 3, 0) if kind in ("int", "ser", "raw") else (1, 2, 3)):
        if val == wire_leaf(kind, i):
            return ["w", i]
    return ["garbage"]


def to_wire(v):
    """what a server returns for a parsed value"""
    if isinstance(v, list):
        return [to_wire(x) for x in v]
    return v


def result_case(c, k, client, methods, sm, pkg, loop, is_async, RESULT, expected_py):
    """C07 result side: the server returns the wire value; user code must see parse(raw) (once per non-null occurrence)."""
    rec = {"case": c}
    pos, state, w, kind = c["pos"], c["state"], c["w"], c["kind"]
    try:
        RESULT["value"] = intended_wire(w, state, kind)
        opname = {"result": "OpR_", "result_nested": "OpRN_", "result_fragment": "OpRF_", "result_union": "OpRU_"}[pos] + k
        meth = getattr(client, methods[opname.replace("_", "").lower()])
        del sm.LOG[:]
        try:
            r = meth()
            if is_async:
                r = loop.run_until_complete(r)
            rec["call"] = "ok"
        except Exception as ex:  # noqa
            rec["call"] = f"{type(ex).__name__}: {ex}"[:300]
            rec["present"] = None
            return rec
        if pos == "result_union":
            top = [n for n, f in type(r).model_fields.items() if (f.alias or n) == "resU"]
            lst = getattr(r, top[0])
            if not (isinstance(lst, list) and len(lst) == 2 and lst[1] is None):
                rec["call"] = f"union list not delivered as returned: {lst!r}"[:300]
                rec["present"] = None
                return rec
            holder = lst[0]
        else:
            holder = r.res.child if pos == "result_nested" else r.res
        attr = [n for n, f in type(holder).model_fields.items() if (f.alias or n) == f"r_{k}"]
        got = getattr(holder, attr[0]) if attr else "@missing"
        plog = [x[1] for x in sm.LOG if x[0] == "parse"]
        rec["serlog"] = ["leaf" if isinstance(x, str) and x.startswith("S:") else ("none" if x is None else "other") for x in plog]
        rec["parse_raw"] = plog
        rec["present"] = True
        rec["value_ok"] = got == expected_py
        rec["got"] = repr(got)[:120]

        def ab(val, exp):
            if val is None:
                return ["null"]
            if isinstance(val, list):
                return ["L"] + [ab(x, None) for x in val]
            for i in ((1, 2, 3, 0) if kind in ("int", "ser", "raw") else (1, 2, 3)):
                if val == leaf(kind, i, pkg, sm):
                    return ["w", i]
            return ["garbage"]
        rec["wire"] = ab(got, expected_py)
        rec["delivered"] = rec["wire"]
    except Exception as ex:  # noqa
        rec["error"] = f"{type(ex).__name__}: {ex}"[:300]
    return rec


class _SubWS:
    """scripted graphql-transport-ws peer: ack, then (after the subscribe frame was captured) complete"""

    def __init__(self, cap):
        self.cap, self.queue, self.closed = cap, [json.dumps({"type": "connection_ack"})], False

    async def send(self, msg):
        d = json.loads(msg)
        if d.get("type") == "subscribe":
            self.cap["payload"] = d.get("payload") or {}
            self.queue.append(json.dumps({"type": "complete", "id": d.get("id")}))

    async def recv(self):
        return self.queue.pop(0)

    def __aiter__(self):
        return self

    async def __anext__(self):
        if self.closed or not self.queue:
            raise StopAsyncIteration
        return self.queue.pop(0)

    async def close(self, *a, **k):
        self.closed = True


class _SubConnect:
    def __init__(self, cap):
        self.cap = cap

    def __call__(self, *a, **k):
        self.ws = _SubWS(self.cap)
        return self

    async def __aenter__(self):
        return self.ws

    async def __aexit__(self, *a):
        return False


def main():
    P = load_payload()
    pkg = import_pkg(P["package"])
    sm = import_pkg(P["package"] + ".scalars_mod")
    bm = import_pkg(P["package"] + ".base_model")
    it = import_pkg(P["package"] + ".input_types")
    schema = build_schema(P["sdl"])
    is_async = P["async"]
    seen = {}

    RESULT = {}

    def resolver(src, info, **kw):
        if info.field_name == "res":
            return {}
        if info.field_name == "resU":
            return [{"__typename": "RT2"}, None]
        if info.field_name == "child":
            return {}
        if info.field_name == "pad":
            return 1
        if info.field_name.startswith("r_"):
            return RESULT.get("value")
        seen["kw"] = kw
        return True
    last = {}

    def handler(request):
        body = json.loads(request.content)
        last["body"] = body
        doc = parse(body["query"])
        errs = validate(schema, doc)
        res = graphql_sync(schema, body["query"], variable_values=body.get("variables") or {}, field_resolver=resolver,
                           operation_name=body.get("operationName"))
        out = {"data": res.data}
        if res.errors or errs:
            out["errors"] = [{"message": str(e)} for e in (list(errs) + list(res.errors or []))]
        return httpx.Response(200, json=out)

    if is_async:
        loop = asyncio.new_event_loop()
        hc = httpx.AsyncClient(transport=httpx.MockTransport(handler))
    else:
        loop = None
        hc = httpx.Client(transport=httpx.MockTransport(handler))
    client = pkg.Client(url="http://x/graphql", http_client=hc, ws_url="ws://x/graphql") if is_async else pkg.Client(url="http://x/graphql", http_client=hc)
    import sys as _sys
    basemod = _sys.modules[pkg.Client.__mro__[1].__module__]

    def sub_deliver(payload):
        """what the server's subscribe resolver receives for the frame's variables (spec variable coercion)"""
        from graphql import subscribe as gql_subscribe

        async def agen():
            if False:
                yield None

        def sub_resolver(src, info, **kw):
            seen["kw"] = kw
            return agen()

        async def go():
            r = gql_subscribe(schema, parse(payload["query"]), variable_values=payload.get("variables") or {},
                              operation_name=payload.get("operationName"), subscribe_field_resolver=sub_resolver)
            if hasattr(r, "__await__"):
                r = await r
            return r
        loop.run_until_complete(go())
    methods = {m.replace("_", "").lower(): m for m in dir(client) if not m.startswith("_")}
    results = []
    for c in P["cases"]:
        k = f"{c['kind']}_{WIDX[c['w']]}"
        pos, state, w, kind = c["pos"], c["state"], c["w"], c["kind"]
        rec = {"case": c}
        try:
            val = caller_value(w, state, kind, pkg, sm)
            if pos.startswith("result"):
                results.append(result_case(c, k, client, methods, sm, pkg, loop, is_async, RESULT, val))
                continue
            opname = {"var": "OpV_", "field": "OpF_", "nested": "OpN_", "recursive": "OpRc_", "sub_var": "OpSV_", "sub_field": "OpSF_"}[pos] + k
            if c.get("dflt"):
                opname = {"var": "OpVD_", "sub_var": "OpSVD_"}[pos] + k
            is_sub = pos.startswith("sub")
            pos = {"sub_var": "var", "sub_field": "field"}.get(pos, pos)
            meth = getattr(client, methods[opname.replace("_", "").lower()])
            sig = inspect.signature(meth)
            rec["signature"] = {n: (p.default is not inspect.Parameter.empty) for n, p in sig.parameters.items() if n not in ("self", "kwargs")}
            kwargs = {}
            if pos == "var":
                if state != "omitted":
                    kwargs["a"] = val
            elif pos == "recursive":
                rec_cls = getattr(it, f"Rec_{k}")
                leafholder = rec_cls() if state == "omitted" else rec_cls(a=val)
                req = w in ("T!", "[T]!", "[T!]!")          # a required field has to be given on every link of the chain
                link = (lambda nxt: rec_cls(a=caller_value(w, "val", kind, pkg, sm), next=nxt)) if req else (lambda nxt: rec_cls(next=nxt))
                kwargs["r"] = link(link(leafholder))
            else:
                fin_cls = getattr(it, f"FIn_{k}")
                fin = fin_cls() if state == "omitted" else fin_cls(a=val)
                if pos == "field":
                    kwargs["i"] = fin
                else:
                    kwargs["o"] = getattr(it, f"NOut_{k}")(inner=fin)
            del sm.LOG[:]
            seen.clear()
            last.clear()
            try:
                if is_sub:
                    cap = {}
                    basemod.ws_connect = _SubConnect(cap)

                    async def consume(it):
                        async for _ in it:
                            pass
                    loop.run_until_complete(consume(meth(**kwargs)))
                    if "payload" in cap:
                        last["body"] = cap["payload"]
                        sub_deliver(cap["payload"])
                else:
                    r = meth(**kwargs)
                    if is_async:
                        r = loop.run_until_complete(r)
                rec["call"] = "ok"
            except Exception as ex:  # noqa
                rec["call"] = f"{type(ex).__name__}: {ex}"[:300]
            rec["serlog"] = [x[1] for x in sm.LOG if x[0] == "ser"]
            body = last.get("body")
            if body is not None:
                variables = body.get("variables") or {}
                if pos == "var":
                    present = "a" in variables
                    wire = variables.get("a")
                elif pos == "recursive":
                    holder = (((variables.get("r") or {}).get("next") or {}).get("next") or {})
                    present = "a" in holder
                    wire = holder.get("a")
                    chain_keys = {"next", "a"} if w in ("T!", "[T]!", "[T!]!") else {"next"}
                    if set(variables.get("r") or {}) != chain_keys or set((variables.get("r") or {}).get("next") or {}) != chain_keys:
                        present, wire = True, "@unset-fields-of-the-chain-were-sent"
                elif pos == "field":
                    present = "a" in (variables.get("i") or {})
                    wire = (variables.get("i") or {}).get("a")
                else:
                    inner = ((variables.get("o") or {}).get("inner") or {})
                    present = "a" in inner
                    wire = inner.get("a")
                rec["present"] = present
                rec["wire"] = abstract(wire, kind) if present else ["null"]
                rec["wire_raw"] = wire
                rec["variables"] = variables
                kw = seen.get("kw")
                if kw is None:
                    rec["delivered"] = ["rejected"]
                else:
                    if pos == "var":
                        got_present, got = "a" in kw, kw.get("a")
                    elif pos == "recursive":
                        holder = (((kw.get("r") or {}).get("next") or {}).get("next") or {})
                        got_present, got = "a" in holder, holder.get("a")
                    elif pos == "field":
                        got_present, got = "a" in (kw.get("i") or {}), (kw.get("i") or {}).get("a")
                    else:
                        inner = ((kw.get("o") or {}).get("inner") or {})
                        got_present, got = "a" in inner, inner.get("a")
                    rec["delivered"] = abstract(got, kind) if got_present else ["absent"]
                    if c.get("dflt") and got_present and got == DEFAULTS.get((kind, w), (None, object()))[1]:
                        rec["delivered"] = ["default"]
                    rec["delivered_raw"] = got
            else:
                rec["present"] = None
        except Exception as ex:  # noqa
            rec["error"] = f"{type(ex).__name__}: {ex}"[:300]
        results.append(rec)
    emit({"results": results})


if __name__ == "__main__":
    main()
