-------------------------- MODULE FragmentsPkg_Trace --------------------------
(* Trace validation for FragmentsPkg.  A real generation (CLI in a subprocess, harness-side probe) is logged as        *)
(*   case(defs, ops)  add(op)*  accumulators(unpacked, mixins)  generated(order, frag_bases, op_bases)                  *)
(* and must be a behaviour of FragmentsPkg!Spec with the observed accumulators / class order / bases equal to the     *)
(* spec's state after the corresponding action.                                                                        *)
EXTENDS FragmentsPkg, Json, IOUtils

Traces == JsonDeserialize(IOEnv.TRACE_FILE)
N == Len(Traces)
ASSUME \A t \in 1..N : TLCSet(t, 0)
NoDev == {}
AllPerms == Perms(Frags)

VARIABLES tid, l
tvars == <<vars, tid, l>>
Ev == Traces[tid][l]
Has == l <= Len(Traces[tid])
Take == l' = l + 1 /\ tid' = tid

TraceInit ==
  /\ tid \in 1..N /\ l = 2
  /\ Traces[tid][1].e = "case"
  /\ defs = [f \in Frags |-> [on |-> Traces[tid][1].defs[f].on, inl |-> Traces[tid][1].defs[f].inl,
                             spreads |-> ToSet(Traces[tid][1].defs[f].spreads)]]
  /\ ops = [k \in DOMAIN Traces[tid][1].ops |->
              [i \in DOMAIN Traces[tid][1].ops[k] |-> [T |-> Traces[tid][1].ops[k][i].T, fs |-> ToSet(Traces[tid][1].ops[k][i].fs), wrap |-> Traces[tid][1].ops[k][i].wrap]]]
  /\ nm = [f \in Frags |-> Traces[tid][1].nm[f]]
  /\ phase = "adding" /\ done = 0 /\ unpacked = {} /\ mixins = {} /\ opBases = <<>>
  /\ names = {} /\ deps = <<>> /\ order = <<>> /\ module = {}

T_Add == Has /\ Ev.e = "add" /\ Ev.op = done + 1 /\ Take /\ AddOperation

T_Accumulators ==
  /\ Has /\ Ev.e = "accumulators" /\ Take
  /\ done = Len(ops)
  /\ ToSet(Ev.unpacked) = unpacked /\ ToSet(Ev.mixins) = mixins
  /\ UNCHANGED vars

\* the private accumulators could not be read (renamed by a refactoring): nothing to compare at this step
T_AccumulatorsUnobservable ==
  /\ Has /\ Ev.e = "accumulators_unobservable" /\ Take
  /\ done = Len(ops)
  /\ UNCHANGED vars

T_Generated ==
  /\ Has /\ Ev.e = "generated" /\ Take
  /\ Traces[tid][l - 1].e \in {"accumulators", "accumulators_unobservable"}    \* observed (and compared when readable) before generation
  /\ GenerateFragments
  /\ order' = Ev.order
  /\ {<<Ev.frag_bases[j][1], ToSet(Ev.frag_bases[j][2])>> : j \in DOMAIN Ev.frag_bases} = {<<f, deps'[f]>> : f \in module'}
  /\ \A k \in DOMAIN opBases : \A i \in DOMAIN opBases[k] :
        {<<Ev.op_bases[k][i][j][1], ToSet(Ev.op_bases[k][i][j][2])>> : j \in DOMAIN Ev.op_bases[k][i]}
          = {<<ct, opBases[k][i][ct]>> : ct \in DOMAIN opBases[k][i]}

TraceNext == T_Add \/ T_Accumulators \/ T_AccumulatorsUnobservable \/ T_Generated
TraceSpec == TraceInit /\ [][TraceNext]_tvars

Reached == TLCSet(tid, IF l > TLCGet(tid) THEN l ELSE TLCGet(tid))
Accepted ==
  LET bad == {t \in 1..N : TLCGet(t) # Len(Traces[t]) + 1} IN
  /\ \A t \in bad : PrintT(<<"REJECTED", t, TLCGet(t)>>)
  /\ bad = {}
=============================================================================
