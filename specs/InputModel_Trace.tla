--------------------------- MODULE InputModel_Trace ---------------------------
(* Trace validation for InputModel: one use of one field of a real generated input class, logged as                      *)
(*   case(dflt, nonnull, name, how, given)  constructed(model)  read(readback)  dumped(dumped)  served(server)           *)
EXTENDS InputModel, Json, IOUtils, SequencesExt

Traces == JsonDeserialize(IOEnv.TRACE_FILE)
N == Len(Traces)
ASSUME \A t \in 1..N : TLCSet(t, 0)
TDefaults == {Traces[t][1].dflt : t \in 1..N}
TNames == {Traces[t][1].name : t \in 1..N}
KnownDev == ToSet(JsonDeserialize(IOEnv.DEV_FILE))

VARIABLES tid, l
tvars == <<vars, tid, l>>
Ev == Traces[tid][l]
Has == l <= Len(Traces[tid])
Take == l' = l + 1 /\ tid' = tid
TraceInit ==
  /\ tid \in 1..N /\ l = 2
  /\ f = [dflt |-> Traces[tid][1].dflt, nonnull |-> Traces[tid][1].nonnull, name |-> Traces[tid][1].name]
  /\ how = Traces[tid][1].how /\ given = Traces[tid][1].given
  /\ stage = "start" /\ model = "-" /\ readback = "-" /\ dumped = "-" /\ server = "-"
T_Construct == Has /\ Ev.e = "constructed" /\ Take /\ Construct /\ model' = Ev.model
T_Read == Has /\ Ev.e = "read" /\ Take /\ ReadBack /\ readback' = Ev.readback
T_Dump == Has /\ Ev.e = "dumped" /\ Take /\ Dump /\ dumped' = Ev.dumped
T_Serve == Has /\ Ev.e = "served" /\ Take /\ ServerCoerce /\ server' = Ev.server
TraceNext == T_Construct \/ T_Read \/ T_Dump \/ T_Serve
TraceSpec == TraceInit /\ [][TraceNext]_tvars
Reached == TLCSet(tid, IF l > TLCGet(tid) THEN l ELSE TLCGet(tid))
Accepted ==
  LET bad == {t \in 1..N : TLCGet(t) # Len(Traces[t]) + 1} IN
  /\ \A t \in bad : PrintT(<<"REJECTED", t, TLCGet(t)>>)
  /\ bad = {}
=============================================================================
