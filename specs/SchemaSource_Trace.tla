--------------------------- MODULE SchemaSource_Trace ---------------------------
(* Trace validation for SchemaSource: generations of ONE schema from different sources compared with the single-file       *)
(* client:  case(src, partition)  generated(result_models, enums, signatures, operation_strings, input_required_and_defaults) *)
(* each flag = "this part of the package equals the reference (order-insensitively)".                                       *)
EXTENDS SchemaSource_MC
Traces == JsonDeserialize(IOEnv.TRACE_FILE)
N == Len(Traces)
ASSUME \A t \in 1..N : TLCSet(t, 0)
VARIABLES tid, l
tvars == <<vars, tid, l>>
Ev == Traces[tid][l]
TraceInit == /\ tid \in 1..N /\ l = 2 /\ src = Traces[tid][1].src /\ partition = [d \in Defs |-> Traces[tid][1].partition[d]]
             /\ ending = Traces[tid][1].ending
             /\ stage = "configured" /\ client = <<>>
T_Generated == /\ l <= Len(Traces[tid]) /\ Ev.e = "generated" /\ l' = l + 1 /\ tid' = tid /\ Generate
               /\ \A p \in Parts : client'[p] = Ev.same[p]
TraceNext == T_Generated
TraceSpec == TraceInit /\ [][TraceNext]_tvars
Reached == TLCSet(tid, IF l > TLCGet(tid) THEN l ELSE TLCGet(tid))
Accepted ==
  LET bad == {t \in 1..N : TLCGet(t) # Len(Traces[t]) + 1} IN
  /\ \A t \in bad : PrintT(<<"REJECTED", t, TLCGet(t)>>)
  /\ bad = {}
=============================================================================
