----------------------------- MODULE SchemaSource -----------------------------
(* C19 -- the schema source does not change the generated client.                                                      *)
(* Code: schema.py (load_graphql_files_from_path / walk_graphql_files / read_graphql_file, introspect_remote_schema,      *)
(* get_graphql_schema_from_url / _from_path) and the consumers of field.ast_node in input_types / input_fields.           *)
(* Part 1: what each source CARRIES of a schema and what the generator READS.  Part 2: the introspection request as a     *)
(* decision chain (like HttpOutcome) ending in the introspection error or the data.                                       *)
EXTENDS Naturals, Sequences, FiniteSets, TLC

CONSTANTS NDefs,            \* number of type definitions of the schema
          Files,            \* file slots (paths) a definition can be put into
          Deviations        \* {"defaults_from_ast_only"} as built (finding F19)

Defs == 1..NDefs
Components == {"types", "field_types", "argument_defaults", "input_default_values", "input_default_ast", "descriptions", "definition_order"}
\* what a source carries
Carried(src) == CASE src = "single_file" -> Components
                  [] src = "directory" -> Components \ {"definition_order"}      \* order = sorted paths, not the author's
                  [] src = "introspection" -> {"types", "field_types", "argument_defaults", "input_default_values"}
                  [] src = "introspection_descriptions" -> {"types", "field_types", "argument_defaults", "input_default_values", "descriptions"}
\* what each part of the generated client reads
Reads(part) == CASE part = "result_models" -> {"types", "field_types"}
                 [] part = "enums" -> {"types"}
                 [] part = "signatures" -> {"types", "field_types"}
                 [] part = "operation_strings" -> {}
                 [] part = "input_required_and_defaults" ->
                       IF "defaults_from_ast_only" \in Deviations THEN {"types", "field_types", "input_default_ast"}
                       ELSE {"types", "field_types", "input_default_values"}
Parts == {"result_models", "enums", "signatures", "operation_strings", "input_required_and_defaults"}
Sources == {"single_file", "directory", "introspection", "introspection_descriptions"}

\* how each file of a directory source ENDS: with a blank line, with its last token (no trailing newline; the last token may
\* be a name: "scalar Stamp"), or with a comment that has no trailing newline.  The loader joins the files; the seam between
\* two files must not fuse tokens nor swallow the next file's first line into a comment.
Endings == {"blank_line", "last_token", "comment"}
VARIABLES src, partition, ending, stage, client
vars == <<src, partition, ending, stage, client>>
Init == /\ src \in Sources /\ partition \in [Defs -> Files] /\ ending \in Endings /\ stage = "configured" /\ client = <<>>
\* a part of the client is faithful iff everything it reads is carried by the source
Generate == /\ stage = "configured" /\ stage' = "generated"
            /\ client' = [p \in Parts |-> Reads(p) \subseteq Carried(src)]
            /\ UNCHANGED <<src, partition, ending>>
Next == Generate
Spec == Init /\ [][Next]_vars
\* every part of the client is the same as from the single SDL file
ClientDependsOnlyOnCommon == stage = "generated" => \A p \in Parts : client[p]
ClientSameK == stage = "generated" => \A p \in Parts : client[p] \/ (p = "input_required_and_defaults" /\ "defaults_from_ast_only" \in Deviations
                                                                      /\ src \in {"introspection", "introspection_descriptions"})

\* configured header values (settings.resolve_headers): a value that is exactly "$NAME" is a reference to the environment,
\* anything else -- also a value with a "$" in the middle ("k3y$Secret9", "Bearer $TOKEN") -- is a literal and is sent verbatim
HeaderKinds == {"plain", "env_reference", "dollar_inside", "double_dollar", "prefix_then_reference"}
SentHeader(k) == IF k = "env_reference" THEN "value_of_the_variable" ELSE "the_configured_text"

\* ---- part 2: introspect_remote_schema ------------------------------------------------------------------------
Responses == [url : {"ok", "invalid", "bad_scheme"}, status : {200, 201, 301, 404, 500}, body : {"nonjson", "nonjson_empty", "nonjson_latin1", "nonjson_binary", "nonjson_truncated", "array", "null", "no_data", "errors_only", "errors_and_data",
                                                                                     "errors_empty_and_data", "data_null", "data_list", "data"}]
\* bodies that are not JSON: markup, nothing at all, bytes that are not even UTF-8 (a Latin-1 page, a compressed payload
\* without Content-Encoding), a document cut off in the middle
NonJsonBodies == {"nonjson", "nonjson_empty", "nonjson_latin1", "nonjson_binary", "nonjson_truncated"}
IntrospectOutcome(r) ==
  IF r.url # "ok" THEN "IntrospectionError"
  ELSE IF r.status < 200 \/ r.status > 299 THEN "IntrospectionError"
  ELSE IF r.body \in NonJsonBodies THEN "IntrospectionError"      \* whatever makes Response.json() fail (ValueError family)
  ELSE IF r.body \in {"array", "null", "no_data", "errors_only"} THEN "IntrospectionError"       \* not a dict / no "data"
  ELSE IF r.body = "errors_and_data" THEN "IntrospectionError"                                   \* errors reported
  ELSE IF r.body \in {"data_null", "data_list"} THEN "IntrospectionError"                        \* data is not a dict
  ELSE "schema"
=============================================================================
