--------------------------- MODULE Telemetry_Trace ---------------------------
(* Trace validation for Telemetry: a real subscription of the async OpenTelemetry client with a RECORDING tracer          *)
(* (harness/pkg/telemetry.py) against a scripted socket.  Logged:  case(inbox, payload, vars)  span(kind, keys, exc,       *)
(* nested)*  root(state)  -- one `span` per finished child span in the order they ended; `nested` = when it was opened     *)
(* the root span was the only open span and was its declared parent.                                                       *)
EXTENDS Telemetry, Json, IOUtils, TLCExt, SequencesExt

Traces == JsonDeserialize(IOEnv.TRACE_FILE)
N == Len(Traces)
ASSUME \A t \in 1..N : TLCSet(t, 0)
TraceKinds == JudgedKinds \cup ObservedOnlyKinds
TraceMax == 64
TracePayloads == BOOLEAN
TraceVarModes == {"none", "empty", "filtered", "allunset"}

VARIABLES tid, l
ttvars == <<tvars, tid, l>>
Ev == Traces[tid][l]
Has == l <= Len(Traces[tid])
Take == l' = l + 1 /\ tid' = tid
Stay == l' = l /\ tid' = tid

TraceInit ==
  /\ tid \in 1..N /\ l = 2 /\ Traces[tid][1].e = "case"
  /\ inbox = Traces[tid][1].inbox
  /\ cfg = [payload |-> Traces[tid][1].payload, vars |-> Traces[tid][1].vars]
  /\ phase = "idle" /\ pos = 0 /\ sent = <<>> /\ yielded = <<>> /\ closed = FALSE /\ result = "running"
  /\ root = "none" /\ spans = <<>>

\* steps that finish no child span are not logged: taken silently (each is enabled at most once per session)
T_Silent == (TConnect \/ TServerClosed) /\ Stay
T_Span ==
  /\ Has /\ Ev.e = "span" /\ Take
  /\ (TSendInit \/ TRecvFirst \/ TSendSubscribe \/ TRecv)
  /\ Ev.nested
  /\ spans'[Len(spans')] = Span(Ev.kind, ToSet(Ev.keys), Ev.exc)
T_Root == /\ Has /\ Ev.e = "root" /\ Take /\ phase = "ended" /\ root = Ev.state /\ UNCHANGED tvars
TraceNext == T_Silent \/ T_Span \/ T_Root
TraceSpec == TraceInit /\ [][TraceNext]_ttvars

Reached == TLCSet(tid, IF l > TLCGet(tid) THEN l ELSE TLCGet(tid))
Accepted ==
  LET bad == {t \in 1..N : TLCGet(t) # Len(Traces[t]) + 1} IN
  /\ \A t \in bad : PrintT(<<"REJECTED", t, TLCGet(t)>>)
  /\ bad = {}
=============================================================================
