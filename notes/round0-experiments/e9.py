from gen import *
schema_ok = 'type Query { a: Int }'
q = 'query A { a }'
print("=== keyword identifiers")
for extra in ['client_name="class"', 'target_package_name="import"', 'client_file_name="for"', 'enums_module_name="1abc"', 'fragments_module_name="1 abc"', 'include_comments="bogus"', 'base_client_name="Nope"']:
    d, n, r = generate(schema_ok, q, extra=extra, name=None if "target_package_name" not in extra else "zz")
    # note: target_package_name given twice -> toml error; handle separately
    print(extra, "->", type(r.exception).__name__ if r.exception else "ACCEPTED", str(r.exception)[:80] if r.exception else sorted(os.listdir(d)))
print("=== invalid schemas")
for s in ['type Query { a: Int } type T { }', 'type Query { a: Missing }', 'type Query { a: Int } interface I { x: Int } type T implements I { y: Int }',
          'type Query { a: Int } union U', 'type Query { a: Int } enum E', 'type Query { a: Int } input In { x: T } type T { a: Int }', 'type Query { __a: Int }',
          'type Mutation { a: Int }', 'type Query { a: Int } type Query { b: Int }', 'type Query { a: Int } directive @d on FIELD directive @d on FIELD']:
    d, n, r = generate(s, q)
    print(repr(s)[:70], "->", type(r.exception).__name__ if r.exception else "ACCEPTED", "| pkg dir exists:", (d/n).exists(), "|", str(r.exception)[:90] if r.exception else "")
print("=== invalid op, existing dir preserved?")
d, n, r = generate(schema_ok, 'query A { b }'); print(type(r.exception).__name__, (d/n).exists())
