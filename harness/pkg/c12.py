"""In-package driver for C12: drive get_data and a generated method over abstract responses."""
import asyncio
import inspect
import json

import httpx

from .util import load_payload, emit, import_pkg, exc_kind

DATA_OBJ = {"item": {"id": "1", "name": "n"}}
ERR_MSG = [{"message": "first"}, {"message": "second"}]
ERR_FULL = [
    {"message": "first", "locations": [{"line": 1, "column": 2}], "path": ["item", "name"],
     "extensions": {"code": "X", "n": 1}},
    {"message": "second", "locations": [{"line": 3, "column": 4}, {"line": 5, "column": 6}],
     "path": ["item", 0, "id"], "extensions": {}},
]


def concretise(body):
    p = body["parse"]
    if p == "empty":
        return b"", None
    if p == "nonjson":
        return b"<html>Bad gateway</html>", None
    if p == "badutf8":
        return b'{"data": {"item": "\xff\xfe"}}', None
    top = body["top"]
    if top != "object":
        doc = {"array": [{"data": DATA_OBJ}], "number": 5, "string": "data", "null": None, "bool": True}[top]
        return json.dumps(doc).encode(), doc
    doc = {}
    if body["data"] == "null":
        doc["data"] = None
    elif body["data"] == "object":
        doc["data"] = json.loads(json.dumps(DATA_OBJ))
    src = ERR_FULL if body["detail"] == "full" else ERR_MSG
    if body["errors"] == "empty":
        doc["errors"] = []
    elif body["errors"] == "one":
        doc["errors"] = json.loads(json.dumps(src[:1]))
    elif body["errors"] == "two":
        doc["errors"] = json.loads(json.dumps(src[:2]))
    elif body["errors"] in ("two_same", "three_mixed"):
        a, b = json.loads(json.dumps(src[0])), json.loads(json.dumps(src[0]))
        if "path" in b:     # same message reported for another position
            b["path"] = ["item", 1, "name"]
            b["locations"] = [{"line": 9, "column": 1}]
            b["extensions"] = {"code": "OTHER", "n": 2}
        doc["errors"] = [a, b] if body["errors"] == "two_same" else [a, json.loads(json.dumps(src[1])), b]
    if body["extra"]:
        doc["extensions"] = {"tracing": {"v": 1}}
        doc["foo"] = [1, 2]
    return json.dumps(doc).encode(), doc


def datakind(v):
    return "none" if v is None else ("object" if isinstance(v, dict) else "other")


class LoggedResponse(httpx.Response):
    """httpx.Response that logs the two observation points of get_data."""
    _log = None

    @property
    def is_success(self):
        self._log.append({"e": "is_success"})
        return httpx.Response.is_success.fget(self)

    def json(self, **kw):
        self._log.append({"e": "json"})
        return super().json(**kw)


def observe_exc(ex, resp, doc):
    k = exc_kind(ex)
    ev = {"kind": k}
    if k == "http_error":
        ev["status"] = getattr(ex, "status_code", None)
        ev["same_response"] = getattr(ex, "response", None) is resp or resp is None
    elif k == "invalid_response":
        ev["same_response"] = getattr(ex, "response", None) is resp or resp is None
    elif k == "multi_error":
        errs = getattr(ex, "errors", None) or []
        ev["n"] = len(errs)
        src = (doc or {}).get("errors") or []
        ok = len(errs) == len(src)
        if ok:
            for e, d in zip(errs, src):
                ok = ok and type(e).__name__ == "GraphQLClientGraphQLError" and e.message == d["message"] \
                    and e.locations == d.get("locations") and e.path == d.get("path") \
                    and e.extensions == d.get("extensions") and e.original == d
        ok = ok and ex.data == (doc or {}).get("data")
        ev["attrs_ok"] = bool(ok)
        ev["data"] = datakind(ex.data)
        ev["detail"] = "full" if (src and "locations" in src[0]) else "msg"
        ev["str"] = str(ex)
    else:
        ev["msg"] = str(ex)[:200]
    return ev


def main():
    P = load_payload()
    pkg = import_pkg(P["package"])
    is_async = P["async"]
    traces = []
    # ---- via get_data on every bundled client copy
    client = pkg.Client(url="http://x/graphql") if not P.get("tracer") else pkg.Client(url="http://x/graphql", tracer=P["tracer"])
    for case in P["cases"]:
        content, doc = concretise(case["body"])
        log = []
        resp = LoggedResponse(case["status"], content=content)
        resp._log = log
        tr = [{"e": "call", "status": case["status"], "body": case["body"], "logged": True, "via": "get_data",
               "client": P["client"]}]
        try:
            out = client.get_data(resp)
            ev = {"e": "outcome", "kind": "return", "data": datakind(out),
                  "unchanged": isinstance(doc, dict) and out == doc.get("data") and (out is None or isinstance(out, dict))}
        except Exception as ex:  # noqa
            ev = {"e": "outcome", **observe_exc(ex, resp, doc)}
        tr.extend(log)
        tr.append(ev)
        traces.append(tr)
    # ---- via the generated method (transport returns the raw response)
    for case in P["method_cases"]:
        content, doc = concretise(case["body"])

        def handler(request, _c=content, _s=case["status"]):
            return httpx.Response(_s, content=_c)
        tr = [{"e": "call", "status": case["status"], "body": case["body"], "logged": False, "via": "method",
               "client": P["client"]}]
        try:
            if is_async:
                async def go():
                    async with httpx.AsyncClient(transport=httpx.MockTransport(handler)) as hc:
                        c = pkg.Client(url="http://x/graphql", http_client=hc)
                        return await c.get_item()
                out = asyncio.run(go())
            else:
                with httpx.Client(transport=httpx.MockTransport(handler)) as hc:
                    c = pkg.Client(url="http://x/graphql", http_client=hc)
                    out = c.get_item()
            dumped = out.model_dump(by_alias=True)
            ev = {"e": "method_outcome", "kind": "model", "data": "object",
                  "unchanged": type(out).__name__ == "GetItem" and dumped == doc.get("data")}
        except Exception as ex:  # noqa
            ev = {"e": "method_outcome", **observe_exc(ex, None, doc)}
        tr.append(ev)
        traces.append(tr)
    emit({"traces": traces})


if __name__ == "__main__":
    main()
