------------------------------ MODULE Names_Trace ------------------------------
(* Trace validation for Names: the real str_to_snake_case / process_name and the real generator on planted names:        *)
(*    case(name, snake, trim, res)   map(py)   [plant(other, py_other, fate)]                                            *)
(* names are logged as arrays of characters; fate is what happened to the pair in a generated package                    *)
(* ("distinct" | "refused" | "merged").                                                                                  *)
EXTENDS Names, Json, IOUtils

Traces == JsonDeserialize(IOEnv.TRACE_FILE)
Lists == JsonDeserialize(IOEnv.LISTS_FILE)
N == Len(Traces)
ASSUME \A t \in 1..N : TLCSet(t, 0)
TNames == {Traces[t][1].name : t \in 1..N} \cup {Traces[t][3].other : t \in {x \in 1..N : Len(Traces[x]) >= 3}}
KW == ToSet(Lists.keywords)
RES == ToSet(Lists.reserved)
AsBuilt == {"silent_merge"}
VARIABLES tid, l
tvars == <<vars, tid, l>>
Ev == Traces[tid][l]
Has == l <= Len(Traces[tid])
Take == l' = l + 1 /\ tid' = tid
TraceInit == /\ tid \in 1..N /\ l = 2 /\ name = Traces[tid][1].name /\ other = <<>>
             /\ flags = [snake |-> Traces[tid][1].snake, trim |-> Traces[tid][1].trim, res |-> Traces[tid][1].res]
             /\ out = <<"?">> /\ outOther = <<"?">> /\ fate = "single"
T_Map == Has /\ Ev.e = "map" /\ Take /\ Map /\ out' = Ev.py
T_Plant == Has /\ Ev.e = "plant" /\ Take /\ Plant(Ev.other) /\ outOther' = Ev.py_other
           /\ (fate' = Ev.fate \/ (fate' = "merged" /\ Ev.fate = "refused"))      \* refusing is always acceptable
TraceNext == T_Map \/ T_Plant
TraceSpec == TraceInit /\ [][TraceNext]_tvars
Reached == TLCSet(tid, IF l > TLCGet(tid) THEN l ELSE TLCGet(tid))
Accepted ==
  LET bad == {t \in 1..N : TLCGet(t) # Len(Traces[t]) + 1} IN
  /\ \A t \in bad : PrintT(<<"REJECTED", t, TLCGet(t)>>)
  /\ bad = {}
=============================================================================
