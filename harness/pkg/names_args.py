"""In-package driver: call a generated method whose arguments carry awkward names; every argument must arrive under its
original GraphQL name with the caller's value."""
import inspect
import json

import httpx
from graphql import build_schema, graphql_sync

from .util import load_payload, emit, import_pkg


def main():
    P = load_payload()
    pkg = import_pkg(P["package"])
    schema = build_schema(P["sdl"])
    item = P["item"]
    seen = {}

    def resolver(src, info, **kw):
        seen["kw"] = kw
        return True

    def handler(request):
        body = json.loads(request.content)
        seen["body"] = body
        res = graphql_sync(schema, body["query"], variable_values=body.get("variables") or {}, field_resolver=resolver)
        return httpx.Response(200, json={"data": res.data, **({"errors": [{"message": str(e)} for e in res.errors]} if res.errors else {})})
    client = pkg.Client(url="http://x", http_client=httpx.Client(transport=httpx.MockTransport(handler)))
    meth = [getattr(client, m) for m in dir(client) if m.replace("_", "").lower() == item["op"].lower()][0]
    params = [p for p in inspect.signature(meth).parameters if p != "kwargs"]
    out = {"params": params}
    if len(params) != len(item["names"]):
        out["problem"] = "arguments_merged_or_lost"
        emit(out)
        return
    values = {p: 100 + i for i, p in enumerate(params)}
    try:
        meth(**values)
    except Exception as ex:  # noqa
        out["problem"] = "call_failed:" + type(ex).__name__
        out["error"] = str(ex)[:300]
        emit(out)
        return
    got = seen.get("kw") or {}
    out["received"] = got
    out["variables"] = (seen.get("body") or {}).get("variables")
    if sorted(got) != sorted(item["names"]) or sorted(got.values()) != sorted(values.values()):
        out["problem"] = "wire_names_or_values_differ"
    elif [got[n] for n in item["names"]] != [values[p] for p in params]:
        out["problem"] = "arguments_swapped"
    emit(out)


if __name__ == "__main__":
    main()
