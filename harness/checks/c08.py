"""C08 -- fragments and mixins are honoured as reusable base types.

leg 1: TLC checks FragmentsPkg exhaustively (all fragment DAGs x type conditions x inline flag x operations), as fixed
       and with the pre-fix deviations (which must violate MixinClassExists -- anti-vacuity).
leg 2: TLC-simulated cases (+ predictions: accumulators, class order, bases per generated class) are rendered to real
       queries files in several definition orders, generated, imported and inspected (__bases__, class order,
       isinstance of returned objects, Fragment.model_validate on the payload).
leg 3: the add_operation* -> generate trace observed through a harness-side probe (accumulators after each step,
       fragments-module class order, bases) is validated by FragmentsPkg_Trace.
"""
import itertools
import json
import random

from ..common import (Verdict, run_tlc, tlc_must_pass, validate_traces_parallel, pmap, Machinery, printed_tuples, NCPU, seed)
from ..gen import write_job, generate, run_in_pkg
from ..universe import gamma

OWN = {"J": "name", "I": "rank", "A": "a1", "B": "b1"}
ROOTF = {"J": "j", "I": "i", "A": "a"}
INVS = ["MixinClassExists", "DepsBeforeDependants", "OrderIsModule", "DirectSpreadIsBase", "StrictOrKnown"]


def cfg(nf, maxops, maxfields, dev, invs=INVS, export=0, perms="AllPerms"):
    """export = N > 0: print (the case and the predicted outcome of) about one terminal state in N"""
    return (f"SPECIFICATION Spec\nCONSTANTS NF = {nf}\n MaxOps = {maxops}\n MaxFields = {maxfields}\n NamePerms <- {perms}\n Deviations <- {dev}\n"
            + (f" SampleOneIn <- Sample{export}\n" if export else "")
            + "".join(f"INVARIANT {i}\n" for i in invs) + ("INVARIANT Export\n" if export else "")
            + "PROPERTY Monotone\nCHECK_DEADLOCK FALSE\n")


TRACE_CFG = """SPECIFICATION TraceSpec
CONSTANTS NF = {nf}
 MaxOps = 2
 MaxFields = 2
 NamePerms <- AllPerms
 Deviations <- NoDev
INVARIANT MixinClassExists
INVARIANT DepsBeforeDependants
INVARIANT OrderIsModule
INVARIANT DirectSpreadIsBase
INVARIANT StrictOrKnown
PROPERTY Monotone
CONSTRAINT Reached
POSTCONDITION Accepted
CHECK_DEADLOCK FALSE
"""


def fname(i, nm=None):
    """the NAME of fragment i: its alphabetical rank is nm[i] (FragmentsPkg!nm); index order when nm is None"""
    return f"Fr{nm[i - 1] if nm else i}"


def evalt(fld):
    """the type a field's spreads are evaluated for (FragmentsPkg!EvalT)"""
    return fld["T"] if fld.get("wrap", "-") == "-" else fld["wrap"]


def findex(name, nm):
    r = int(name[2:])
    return nm.index(r) + 1 if nm else r


def render_case(defs, ops, perm=None, mixin_on=None, nm=None):
    """defs: list of {on, inl, spreads}; ops: list of list of {T, fs}.  perm: order of the definitions in the file."""
    parts = {}
    for i, d in enumerate(defs, start=1):
        body = [f"  k{i}: {OWN[d['on']]}"] + [f"  ...{fname(g, nm)}" for g in d["spreads"]]
        if d["inl"]:
            body.append(f"  ... on A {{\n    z{i}: a1\n  }}")
        mix = ' @mixin(from: ".mixins_mod", import: "MixinF")' if mixin_on == ("frag", i) else ""
        parts[("f", i)] = f"fragment {fname(i, nm)} on {d['on']}{mix} {{\n" + "\n".join(body) + "\n}"
    for k, op in enumerate(ops, start=1):
        flds = []
        for i, fld in enumerate(op, start=1):
            mix = ' @mixin(from: ".mixins_mod", import: "MixinO")' if mixin_on == ("field", k, i) else ""
            inner = "\n".join(f"    ...{fname(f, nm)}" for f in fld["fs"])
            if fld.get("wrap", "-") != "-":
                inner = f"    ... on {fld['wrap']} {{\n" + "\n".join("  " + ln for ln in inner.split("\n")) + "\n    }"
            flds.append(f"  x{i}: {ROOTF[fld['T']]}{mix} {{\n" + inner + "\n  }")
        parts[("o", k)] = f"query Op{k} {{\n" + "\n".join(flds) + "\n}"
    keys = list(parts)
    if perm is not None:
        keys = [keys[j] for j in perm]
    return "\n\n".join(parts[k] for k in keys) + "\n"


def cases_from(res):
    out = []
    for t in printed_tuples(res.out, "F"):
        _, defs, ops, unpacked, mixins, order, nm, opbases = t
        out.append({"defs": defs, "ops": ops, "unpacked": unpacked, "mixins": mixins, "order": order, "opbases": opbases, "nm": list(nm)})
    return out


def nontrivial(c):
    return (len(c["defs"]) >= 2 and any(d["spreads"] for d in c["defs"])) or \
        max(sum(1 for op in c["ops"] for fld in op if f in fld["fs"]) for f in range(1, len(c["defs"]) + 1)) >= 2


def run(tier, work, replay=None):
    v = Verdict("C08", tier)
    q = tier == "quick"
    rnd = random.Random(seed())
    # (NF, MaxOps, MaxFields): 2 fragments x (2 operations of 1 field | 1 operation of 2 fields), 3 fragments x 1 x 1 -- each
    # exhaustive in TLC (0.13 M - 1.5 M states); a 1-in-N sample of the terminal states is driven into the generator
    jobs = [("mc", dict(cfg=cfg(2, 2, 1, "NoDeviations", export=250 if q else 60), workers=6)),
            ("mcb", dict(cfg=cfg(2, 1, 2, "NoDeviations", export=250 if q else 60), workers=6)),
            ("mc3", dict(cfg=cfg(3, 1, 1, "NoDeviations", export=3000 if q else 400), workers=8)),
            ("dev", dict(cfg=cfg(2, 1, 2, "PreFix", invs=["MixinClassExists"]), workers=2))]
    def tj(j):
        name, kw = j
        c = kw.pop("cfg")
        return name, run_tlc("FragmentsPkg_MC", c, work.sub("tlc_" + name), timeout=3400, **kw)
    rr = dict(pmap(tj, jobs))
    for name in ("mc", "mcb", "mc3"):
        if name in rr:
            tlc_must_pass(rr[name], f"FragmentsPkg {name}")
            v.add_tlc(rr[name], f"FragmentsPkg exhaustive {name}")
    if "MixinClassExists" not in rr["dev"].invariant_violated:
        raise Machinery("anti-vacuity: the pre-fix deviations do not violate MixinClassExists")
    cases = cases_from(rr["mc"]) + cases_from(rr["mcb"]) + cases_from(rr["mc3"])
    seen, uniq = set(), []
    for c in cases:
        k = json.dumps([c["defs"], c["ops"], c["nm"]], sort_keys=True)
        if k not in seen:
            seen.add(k)
            uniq.append(c)
    cases = uniq
    if len(cases) < 100:
        raise Machinery(f"too few exported cases: {len(cases)}")
    # each case in 1 (quick) / 3 (thorough) definition orders; a few with @mixin placements
    work_items = []
    for ci, c in enumerate(cases):
        nparts = len(c["defs"]) + len(c["ops"])
        perms = [None]
        allp = list(itertools.permutations(range(nparts)))
        rnd.shuffle(allp)
        perms += allp[: (1 if q else 3)]
        for pi, perm in enumerate(perms):
            mix = None
            if pi == 0 and ci % 5 == 0:
                mix = ("frag", 1 + ci % len(c["defs"])) if ci % 2 == 0 else ("field", 1, 1)
            work_items.append((ci, pi, perm, mix))

    def one(w):
        ci, pi, perm, mix = w
        c = cases[ci]
        job = work.dir / f"job_{ci}_{pi}"
        qtext = render_case(c["defs"], c["ops"], perm, mix, c["nm"])
        files = {"mixins_mod.py": "class MixinF:\n    marker_f = 1\n\n\nclass MixinO:\n    marker_o = 2\n"}
        write_job(job, schema=gamma.SDL, queries=qtext, package="gclient",
                  options={"async_client": False, "files_to_include": ["mixins_mod.py"]}, files=files)
        r = generate(job, probe=True)
        obs = None
        if r["exc_class"] is None:
            ops_payload = []
            for op in c["ops"]:
                flds = []
                for fld in op:
                    flds.append({"T": fld["T"], "direct_exact": [fname(f, c["nm"]) for f in fld["fs"]
                                                                  if not c["defs"][f - 1]["inl"] and c["defs"][f - 1]["on"] == evalt(fld)]})
                ops_payload.append(flds)
            obs = run_in_pkg(job, "harness.pkg.c08", {"package": "gclient", "frag_names": [fname(i + 1, c["nm"]) for i in range(len(c["defs"]))],
                                                      "ops": ops_payload})
            if mix:
                obs["mixin"] = check_mixin(job, mix, c["nm"])
        import shutil
        shutil.rmtree(job, ignore_errors=True)
        return w, r, obs, qtext

    outs = pmap(one, work_items)
    traces, owners = [], []
    for (ci, pi, perm, mix), r, obs, qtext in outs:
        c = cases[ci]
        feats = {"case": ci, "perm": list(perm) if perm else None, "nf": len(c["defs"]), "mixin": list(mix) if mix else None}
        if r["exc_class"]:
            v.violation(feats, f"gen_crash:{r['exc_class']}", {"queries": qtext, "message": r["exc_msg"]})
            continue
        if not obs["loads"]:
            v.violation(feats, "module_does_not_load:" + obs["error"].split(":")[0], {"queries": qtext, "error": obs["error"]})
            continue
        if mix and obs.get("mixin") is not True:
            v.violation(feats, "mixin_directive", {"queries": qtext, "observed": obs.get("mixin")})
        # instance / validate checks on returned objects (statement (a))
        for k, op in enumerate(c["ops"]):
            for i, fld in enumerate(op):
                fo = obs["ops"][k][i]
                exact = [fname(f, c["nm"]) for f in fld["fs"] if not c["defs"][f - 1]["inl"] and c["defs"][f - 1]["on"] == evalt(fld)]
                for inst in fo["instances"]:
                    if "error" in inst:
                        v.violation(feats, "call_failed", {"queries": qtext, "error": inst["error"]})
                        continue
                    for fn in exact:
                        if not inst["isinstance"].get(fn):
                            ct = [cl for cl in fo["classes"] if cl[2] == inst["cls"]]
                            sub = bool(ct) and ct[0][0] != fld["T"]
                            v.violation(dict(feats, subtype_class=sub), "not_instance_of_fragment",
                                        {"queries": qtext, "fragment": fn, "class": inst["cls"], "runtime": inst["rt"]})
                        elif inst["validates"].get(fn) is not True:
                            v.violation(feats, "fragment_does_not_validate_payload", {"queries": qtext, "fragment": fn, "outcome": inst["validates"].get(fn)})
        # trace for TLC
        tr = [{"e": "case", "defs": c["defs"], "ops": c["ops"], "nm": c["nm"]}]
        ix = lambda name: findex(name, c["nm"])   # noqa
        adds = [e for e in r["events"] if isinstance(e, dict) and e.get("e") == "add_operation"]
        by_name = {e.get("op"): e for e in adds}
        observable = True
        for k in range(1, len(c["ops"]) + 1):
            e = by_name.get(f"Op{k}")
            if e is None:
                raise Machinery("probe did not see add_operation for every operation")
            if "unpacked" not in e or "mixins" not in e:
                observable = False        # private accumulators renamed / removed by a refactoring: judge what is public
            tr.append({"e": "add", "op": k})
        # accumulators are order-dependent only through union: compare after the last add
        last = adds[-1]
        if observable:
            tr.append({"e": "accumulators", "unpacked": sorted(ix(x) for x in last["unpacked"]),
                       "mixins": sorted(ix(x) for x in last["mixins"])})
        else:
            tr.append({"e": "accumulators_unobservable"})
            v.note_drift("PackageGenerator accumulators (_unpacked_fragments / _fragments_used_as_mixins) are not observable any more; "
                         "the fragments module, class order and bases are still compared with the specification")
        tr.append({"e": "generated", "order": [ix(n) for n in obs["order"]],
                   "frag_bases": sorted([ix(n), sorted(ix(b) for b in bs)] for n, bs in obs["frag_bases"].items()),
                   "op_bases": [[[[cl[0], sorted(ix(b) for b in cl[1])] for cl in fo["classes"]] for fo in opo] for opo in obs["ops"]]})
        traces.append(tr)
        owners.append((feats, qtext))
    v.cov["evaluations"] = len(outs)
    rejected, inv = {}, []
    for nf in (2, 3):
        idx = [k for k, tr in enumerate(traces) if len(tr[0]["defs"]) == nf]
        if not idx:
            continue
        rs, rej, iv = validate_traces_parallel("FragmentsPkg_Trace", TRACE_CFG.format(nf=nf), [traces[k] for k in idx],
                                               work.sub(f"tv{nf}"), chunk_size=300)
        for r in rs:
            v.add_tlc(r, f"FragmentsPkg_Trace NF={nf}")
        rejected.update({idx[a]: b for a, b in rej.items()})
        inv.extend((n, idx[t] if t is not None else None) for n, t in iv)
    bad = set(rejected) | {t for _, t in inv if t is not None}
    for t in sorted(bad):
        feats, qtext = owners[t]
        why = [i for i, tt in inv if tt == t]
        at = traces[t][rejected[t] - 1] if t in rejected and rejected[t] - 1 < len(traces[t]) else {}
        v.violation(feats, "trace_rejected:" + (",".join(why) or f"at:{at.get('e')}"), {"queries": qtext, "event": at, "matched_prefix": rejected.get(t)})
    v.cov["traces_validated_against_impl"] = len(traces) - len(bad)
    v.cov["distinct_nontrivial"] = len([1 for c in cases if nontrivial(c)])
    v.cov["rule"] = ("cases = (fragment DAG with type conditions and inline flags, operations with spreads) sampled by TLC -simulate "
                     "from FragmentsPkg!Init (exhaustively model-checked for the smaller bounds); each rendered in several definition "
                     "orders; non-trivial = >=2 fragments with a dependency, or a fragment used from >=2 places")
    v.cov["exhaustive"] = False
    for tr, (feats, qtext) in list(zip(traces, owners))[:3]:
        v.sample({"queries": qtext, "trace": tr})
    v.assumptions += ["accumulators observed by a harness-side wrapper around PackageGenerator.add_operation (private attributes)",
                      "C08 never puts @skip/@include on spreads (C01 does; DESIGN 7: tension between the two statements)"]
    return v.finish()


def check_mixin(job, mix, nm=None):
    """The class named by @mixin is imported and is an additional base of exactly the class of that field / fragment."""
    import subprocess
    from ..common import run_py
    code = r'''
import sys, json, importlib, inspect
sys.path.insert(0, %r)
pkg = importlib.import_module("gclient")
import pydantic
out = {}
mods = [importlib.import_module("gclient." + m) for m in %r]
hits = []
for m in mods:
    for n, c in vars(m).items():
        if inspect.isclass(c) and c.__module__ == m.__name__:
            for b in c.__bases__:
                if b.__name__ in ("MixinF", "MixinO"):
                    hits.append([c.__name__, b.__name__, b.__module__])
print(json.dumps(hits))
'''
    import os
    mods = sorted(f[:-3] for f in os.listdir(job / "gclient") if f.endswith(".py") and (f.startswith("op_") or f == "fragments.py"))
    p = run_py(["-c", code % (str(job), mods)], cwd=job)
    try:
        hits = json.loads(p.stdout.strip().splitlines()[-1])
    except Exception:  # noqa
        return "probe_failed:" + p.stderr[-200:]
    if mix[0] == "frag":
        want = [[fname(mix[1], nm), "MixinF", "gclient.mixins_mod"]]
        # a fragment that is unpacked everywhere has no class: then nothing can carry the mixin
        if not hits:
            return True if not (job / "gclient" / "fragments.py").exists() or f"class {fname(mix[1], nm)}(" not in (job / "gclient" / "fragments.py").read_text() else hits
    else:
        want = None
        names = {h[0] for h in hits}
        ok = all(h[1] == "MixinO" and h[0].startswith("Op1X1") for h in hits) and len(hits) >= 1
        return True if ok else hits
    return True if hits == want else hits
