SPECIFICATION TraceSpec
CONSTANTS MaxLen <- TraceMax
 Tokens <- TraceTokens
 Deviations <- NoDev
INVARIANT LiteralPreserved
INVARIANT UnsafeNeverJoined
CONSTRAINT Reached
POSTCONDITION Accepted
CHECK_DEADLOCK FALSE
