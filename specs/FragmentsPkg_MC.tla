--------------------------- MODULE FragmentsPkg_MC ---------------------------
EXTENDS FragmentsPkg, TLCExt
NoDeviations == {}
AllPerms == Perms(Frags)
TwoPerms == {[f \in Frags |-> f], [f \in Frags |-> NF + 1 - f]}
PreFix == {"exclude_all_unpacked", "no_dep_closure"}
SetIter == {"set_iteration"}
OldClosure == {"old_closure"}
Sample400 == 400
Sample2500 == 2500
\* printed once per terminal state: the case and the predicted outcome (tuples / records of simple values)
SampleOneIn == 1
Sample60 == 60
Sample150 == 150
Sample250 == 250
Sample900 == 900
Sample200 == 200
Sample3000 == 3000
Sample1200 == 1200
Sample6000 == 6000
Sample1M == 100000000
Sample1500 == 1500
\* a triangle of base-class dependencies (R inherits F and S, F inherits S): the shape on which a topological sort that
\* mishandles already-visited nodes duplicates or misorders a class (seeded change C08b).  Always over-sampled.
Triangle == /\ module = Frags
            /\ \E f \in module : Cardinality(deps[f]) >= 2 /\ \E g \in deps[f] : deps[g] \cap deps[f] # {}
TriangleOneIn == 4
Export == (phase = "generated" /\ (RandomElement(1..SampleOneIn) = 1 \/ (NF >= 3 /\ Triangle /\ RandomElement(1..TriangleOneIn) = 1))) =>
  PrintT(<<"F", [f \in Frags |-> [on |-> defs[f].on, inl |-> defs[f].inl, spreads |-> SetToSortSeq(defs[f].spreads, <)]],
           [k \in DOMAIN ops |-> [i \in DOMAIN ops[k] |-> [T |-> ops[k][i].T, fs |-> SetToSortSeq(ops[k][i].fs, <), wrap |-> ops[k][i].wrap]]],
           SetToSortSeq(unpacked, <), SetToSortSeq(mixins, <), order, nm,
           [k \in DOMAIN opBases |-> [i \in DOMAIN opBases[k] |->
               LET cts == SetToSeq(DOMAIN opBases[k][i]) IN
               [j \in 1..Len(cts) |-> <<cts[j], SetToSortSeq(opBases[k][i][cts[j]], <)>>]]]>>)
=============================================================================
