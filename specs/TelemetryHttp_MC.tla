-------------------------- MODULE TelemetryHttp_MC --------------------------
EXTENDS TelemetryHttp
AllBodies == {"json", "multipart"}
AllTransports == {"response", "transport_error"}
=============================================================================
