from gen import *
import time
schema = '''
interface Node { id: ID! }
type User implements Node { id: ID! name: String! email: String }
type Bot implements Node { id: ID! model: String! }
union SR = User | Bot
type Query { node: Node! user(q: String): User search(q: String): [SR!]! nodes: [Node]! }
'''
for k in (1, 20, 100):
    q = "\n".join('query Q%d { node { id ... on User { name } } user(q: "x") { id name } search { ... on Bot { model } } }' % i for i in range(k))
    t=time.time(); d,n,r = generate(schema,q); show(r); t1=time.time()-t
    t=time.time(); m = load(d,n); t2=time.time()-t
    print(k, "ops: gen %.2fs import %.2fs" % (t1,t2))
