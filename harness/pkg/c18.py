"""In-package driver for C18: what happened to a pair of names planted in one scope of a generated package."""
import enum
import json

import httpx

from .util import load_payload, emit, import_pkg


def main():
    P = load_payload()
    a, b, scope = P["a"], P["b"], P["scope"]
    out = {}
    try:
        pkg = import_pkg(P["package"])
    except Exception as ex:  # noqa
        emit({"fate": "broken", "error": f"{type(ex).__name__}: {ex}"[:300]})
        return
    try:
        if scope == "fields":
            mod = import_pkg(P["package"] + ".pair_op")
            cls = [c for n, c in vars(mod).items() if n == "PairOpT"][0]
            keys = {(f.alias or n) for n, f in cls.model_fields.items()}
            inst = mod.PairOp.model_validate({"t": {a: 1, b: 2}})
            dumped = inst.model_dump(by_alias=True)
            out["keys"] = sorted(keys)
            out["fate"] = "distinct" if {a, b} <= keys and dumped == {"t": {a: 1, b: 2}} else "merged"
            out["py_names"] = sorted(cls.model_fields)
        elif scope == "input":
            it = import_pkg(P["package"] + ".input_types")
            inst = it.PairIn.model_validate({a: 1, b: 2})
            dumped = inst.model_dump(by_alias=True)
            out["fate"] = "distinct" if dumped == {a: 1, b: 2} else "merged"
            out["py_names"] = sorted(it.PairIn.model_fields)
        elif scope == "enum":
            en = import_pkg(P["package"] + ".enums")
            vals = sorted(m.value for m in en.PairEnum)
            out["fate"] = "distinct" if vals == sorted([a, b]) else "merged"
            out["py_names"] = sorted(m.name for m in en.PairEnum)
        elif scope == "alias_in_fragment":
            mod = import_pkg(P["package"] + ".pair_op")
            cls = [c for n, c in vars(mod).items() if n == "PairOpT"][0]
            keys = {(f.alias or n) for n, f in cls.model_fields.items()}
            payload = {"t": {"val": 1, a: 1, b: 1}}
            dumped = mod.PairOp.model_validate(payload).model_dump(by_alias=True)
            out["keys"] = sorted(keys)
            out["fate"] = "distinct" if {"val", a, b} <= keys and dumped == payload else "merged"
        elif scope == "enum_default":
            it = import_pkg(P["package"] + ".input_types")
            inst = it.PairIn()
            got = [getattr(inst.e, "value", inst.e), [getattr(x, "value", x) for x in inst.l]]
            out["got"] = got
            out["fate"] = "distinct" if got == [a, [b, a]] else "merged"
        elif scope == "variables":
            import inspect
            sent = []

            def vhandler(request):
                sent.append(json.loads(request.content).get("variables"))
                return httpx.Response(200, json={"data": {"f": 1}})
            client = pkg.Client(url="http://x", http_client=httpx.Client(transport=httpx.MockTransport(vhandler)))
            params = [n for n in inspect.signature(client.pair_op).parameters if n not in ("self", "kwargs")]
            out["py_names"] = params
            if len(params) != 2:
                out["fate"] = "merged"
            else:
                client.pair_op(**{params[0]: 1, params[1]: 2})
                out["sent"] = sent
                out["fate"] = "distinct" if sent and sent[-1] == {a: 1, b: 2} else "merged"
        elif scope == "ops":
            sent = []

            def handler(request):
                sent.append(json.loads(request.content).get("operationName"))
                return httpx.Response(200, json={"data": {"x": 1}})
            client = pkg.Client(url="http://x", http_client=httpx.Client(transport=httpx.MockTransport(handler)))
            methods = [m for m in dir(client) if not m.startswith("__") and m not in dir(pkg.BaseClient) and callable(getattr(client, m))]
            methods = [m for m in methods if m not in ("execute", "get_data")]
            for m in methods:
                try:
                    getattr(client, m)()
                except Exception:  # noqa
                    pass
            out["methods"] = methods
            out["sent"] = sorted(set(x for x in sent if x))
            out["fate"] = "distinct" if sorted(set(sent)) == sorted([a, b]) else "merged"
            out["py_names"] = methods
    except Exception as ex:  # noqa
        out["fate"] = "broken"
        out["error"] = f"{type(ex).__name__}: {ex}"[:300]
    emit(out)


if __name__ == "__main__":
    main()
