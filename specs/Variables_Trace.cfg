SPECIFICATION TraceSpec
CONSTANTS Wrappers <- TW
 Kinds <- TK
 Positions <- TP
 States <- TS
 Deviations <- AsBuiltDev
INVARIANT DeliveredIsIntendedK
INVARIANT OmittedAbsentK
INVARIANT NoneIsNullK
INVARIANT SerializeOnceK
INVARIANT NeverSerializeNoneK
INVARIANT OnlySerScalarsSerialized
CONSTRAINT Reached
POSTCONDITION Accepted
CHECK_DEADLOCK FALSE
