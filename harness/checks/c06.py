"""C06 -- input models accept exactly the schema's input values, with its defaults.

leg 1: TLC checks InputModel (Construct -> ReadBack -> Dump -> ServerCoerce) over default-literal kind x nullability x
       field-name class x {python name, GraphQL name} x {unset, null, value}.
leg 2: every enumerated field becomes a real input type; the generated class is instantiated in every way, read back,
       dumped and sent through a generated method to a graphql-core resolver; the reference for defaults and acceptance
       is graphql-core's own coerce_input_value.
leg 3: the constructed / read / dumped / served traces are validated by InputModel_Trace.
"""
import json

from ..common import Verdict, run_tlc, tlc_must_pass, validate_traces_parallel, Machinery, load_findings
from ..gen import write_job, generate, run_in_pkg

DEF = {
    "nodefault": ("Int", None, 7, None, None), "nodefault_unmapped": ("Raw", None, {"any": [1]}, None, None),
    "nodefault_list_nullable_items": ("[Int]", None, [1, None], None, None), "nodefault_nested_list": ("[[Int]]", None, [[1, None], None], None, None),
    "nodefault_enum": ("Color", None, "RED", None, "enum"), "nodefault_object": ("Sub", None, {"a": 9}, "Sub", None), "int": ("Int", "5", 7, None, None), "float": ("Float", "1.5", 2.5, None, None),
    "float_int": ("Float", "1", 2.5, None, None), "string": ("String", '"abc"', "xyz", None, None),
    "string_quotes": ("String", '"it\'s \\"q\\" \\\\ x"', "v", None, None), "bool": ("Boolean", "true", False, None, None),
    "null": ("String", "null", "v", None, None), "enum": ("Color", "GREEN", "RED", None, "enum"),
    "enum_keyword": ("Color", "in", "RED", None, "enum"), "id_int": ("ID", "5", "id9", None, None),
    "id_string": ("ID", '"abc"', "id9", None, None), "list": ("[Int!]", "[1, 2]", [3], None, None),
    "empty_list": ("[Int!]", "[]", [3], None, None), "nested_list": ("[[Int!]]", "[[1], [2, 3]]", [[4]], None, None),
    "list_null_item": ("[Int]", "[1, null]", [None, 2], None, None), "object": ("Sub", "{a: 1}", {"a": 9}, "Sub", None),
    "object_enum": ("Sub", "{c: GREEN}", {"c": "RED"}, "Sub", None), "object_list": ("Sub", "{l: [1, 2]}", {"l": [3]}, "Sub", None),
    "object_object": ("Sub", "{s: {z: 1}}", {"s": {"z": 2}}, "Sub", None),
    "list_of_objects": ("[Sub!]", "[{a: 1}, {a: 2}]", [{"a": 3}], "Sub", None),
    "custom_scalar": ("Day", '"2020-01-01"', "2020-01-02", None, "date"),
    # an explicit null entry OVERRIDES the nested field's own default; an omitted entry gets it
    "object_null_entry": ("Sub", "{d: null, a: 1}", {"a": 9, "d": 3}, "Sub", None),
    "list_of_objects_null_entry": ("[Sub!]", "[{d: null}, {a: 2}]", [{"a": 3, "d": 4}], "Sub", None),
    "object_nested_default": ("Sub", "{a: 1}", {"d": 5}, "Sub", None),
    # an enum value that is a Python keyword INSIDE an object literal: the plain value "in", not the member name in_
    "object_enum_keyword": ("Sub", "{c: in, a: 1}", {"c": "RED"}, "Sub", None),
    "list_of_objects_enum_keyword": ("[Sub!]", "[{c: in}, {c: GREEN}]", [{"c": "RED"}], "Sub", None),
    # `null` as the default of a list / nested list / list of enums / object: stays null (it is not a list of one null)
    "list_null": ("[String]", "null", ["a", None], None, None), "nested_list_null": ("[[Int!]!]", "null", [[1], [2, 3]], None, None),
    "enum_list_null": ("[Color!]", "null", ["RED"], None, "enum"), "object_null": ("Sub", "null", {"a": 9}, "Sub", None),
    # a single value as the default of a list type: input coercion makes it a list of one item
    "list_single_value": ("[Int!]", "3", [4], None, None), "nested_list_single_value": ("[[Int]]", "3", [[4, None]], None, None),
    "nested_list_flat_items": ("[[Int]]", "[1, 2]", [[4]], None, None),
}
NAMES = {"plain": "amount", "camel": "firstName", "keyword": "from", "reserved": "schema", "under": "_hidden"}
MC_CFG = """SPECIFICATION Spec
CONSTANTS DefaultKinds <- AllDefaults
 NameClasses <- AllNames
 Deviations <- NoDev
INVARIANT AcceptsCanonical
INVARIANT RejectsMissingRequired
INVARIANT DefaultReadsBack
INVARIANT ServerSeesDefault
INVARIANT ServerSeesValue
CHECK_DEADLOCK FALSE
"""


def run(tier, work, replay=None):
    v = Verdict("C06", tier)
    out = work.dir / "fields.json"
    res = run_tlc("InputModel_MC", MC_CFG, work.sub("tlc"), env={"OUT_FILE": str(out)}, workers=4, coverage=(tier == "quick"))
    tlc_must_pass(res, "InputModel_MC")
    v.add_tlc(res, "InputModel exhaustive")
    fields = json.loads(out.read_text())
    sdl = ["scalar Day", "scalar Raw", "enum Color { RED GREEN in }", "input Sub2 { z: Int }", "input Sub { a: Int c: Color l: [Int] s: Sub2 d: Int = 10 }"]
    qf, ops, uses = [], [], []
    for idx, f in enumerate(fields):
        typ, lit, value, vmodel, vkind = DEF[f["dflt"]]
        gname = NAMES[f["name"]]
        t = typ + ("!" if f["nonnull"] else "")
        sdl.append(f"input I{idx} {{ {gname}: {t}{(' = ' + lit) if lit is not None else ''} pad: Int }}")
        qf.append(f"  e{idx}(i: I{idx}!): Boolean")
        ops.append(f"query Q{idx}($i: I{idx}!) {{ e{idx}(i: $i) }}")
        required = f["nonnull"] and f["dflt"].startswith("nodefault")
        for how in ("python_name", "graphql_name"):
            for given in ("unset", "null", "value"):
                if given == "null" and f["nonnull"]:
                    continue
                uses.append({"idx": idx, "gname": gname, "how": how, "given": given, "value": value, "value_model": vmodel,
                             "value_kind": vkind, "required": required, "field": f})
    sdl.append("type Query {\n" + "\n".join(qf) + "\n}")
    sdl = "\n".join(sdl) + "\n"
    job = write_job(work.dir / "job", schema=sdl, queries="\n".join(ops) + "\n", package="gclient", options={"async_client": False},
                    scalars={"Day": {"type": "datetime.date"}})
    r = generate(job)
    if r["exc_class"]:
        # isolate the input types that break generation: one package per default kind
        v.violation({"stage": "generate"}, f"gen_crash:{r['exc_class']}", {"message": r["exc_msg"], "tb": r.get("tb")})
        return v.finish()
    try:
        o = run_in_pkg(job, "harness.pkg.c06", {"package": "gclient", "sdl": sdl, "uses": uses}, timeout=1800)
    except Machinery as ex:
        v.violation({"stage": "load"}, "package_does_not_load", str(ex)[-800:])
        return v.finish()
    known_dev = sorted({d for fnd in load_findings("C06") if fnd.get("status") == "open" for d in ([fnd["match"].get("dflt")] if isinstance(fnd["match"].get("dflt"), str) else (fnd["match"].get("dflt") or []))})
    traces, owners = [], []
    for u, rec in zip(uses, o["results"]):
        f = u["field"]
        feats = {"dflt": f["dflt"], "nonnull": f["nonnull"], "name": f["name"], "how": u["how"], "given": u["given"]}
        if rec.get("problem"):
            v.violation(feats, "driver_problem:" + rec["problem"].split(":")[0], rec)
            continue
        ev = {e["e"]: e for e in rec["events"]}
        built = ev.get("constructed", {}).get("model")
        if u["given"] == "unset" and u["required"]:
            if built != "rejected":
                v.violation(feats, "missing_required_field_accepted", rec)
        elif built != "built":
            v.violation(feats, "schema_valid_value_rejected", rec)
        else:
            rb, dm, sv = ev["read"]["readback"], ev["dumped"]["dumped"], ev["served"]["server"]
            if u["given"] == "unset" and not f["dflt"].startswith("nodefault"):
                if rb != "default":
                    v.violation(feats, "default_reads_back_wrong", rec)
                if sv != "default":
                    v.violation(feats, "server_does_not_see_default:" + sv, rec)
            elif u["given"] == "unset":
                if rb != "null" or sv not in ("absent",):
                    v.violation(feats, "unset_field_not_absent:" + sv, rec)
            else:
                want = "null" if u["given"] == "null" else "value"
                if rb != want:
                    v.violation(feats, "value_reads_back_wrong", rec)
                if sv != want:
                    v.violation(feats, "server_sees_other_value:" + sv, rec)
        traces.append([{"e": "case", "dflt": f["dflt"], "nonnull": f["nonnull"], "name": f["name"], "how": u["how"], "given": u["given"]}] + rec["events"])
        owners.append((feats, rec))
    devf = work.dir / "dev.json"
    devf.write_text(json.dumps(known_dev))
    rs, rejected, inv = validate_traces_parallel("InputModel_Trace", "InputModel_Trace.cfg", traces, work.sub("tv"), chunk_size=500,
                                                 env={"DEV_FILE": str(devf)})
    for r2 in rs:
        v.add_tlc(r2, "InputModel_Trace")
    bad = set(rejected) | {t for _, t in inv if t is not None}
    for t in sorted(bad):
        feats, rec = owners[t]
        why = [i for i, tt in inv if tt == t]
        v.violation(feats, "trace_rejected:" + (",".join(why) or "events"), {"trace": traces[t], "raw": rec})
    v.cov["evaluations"] = len(uses)
    v.cov["traces_validated_against_impl"] = len(traces) - len(bad)
    v.cov["distinct_nontrivial"] = len([1 for f in fields if not f["dflt"].startswith("nodefault") or f["name"] != "plain"])
    v.cov["rule"] = ("fields = default-literal kind (22) x non-null? x field-name class (plain, camelCase, keyword, pydantic attribute, "
                     "leading underscore) enumerated by TLC; each used by Python name and by GraphQL name, unset / null / value; "
                     "non-trivial = has a default or an awkward name")
    v.cov["exhaustive"] = True
    for k in (0, len(traces) // 2, len(traces) - 1):
        v.sample({"trace": traces[k], "raw": {x: owners[k][1].get(x) for x in ("pyname", "readback_raw", "ref_default", "server_raw")}})
    v.assumptions += ["graphql-core coerce_input_value defines the coerced schema default and canonical acceptance"]
    return v.finish()
