------------------------------ MODULE Universe ------------------------------
(* Shared vocabulary: a small GraphQL schema (harness/universe/schema.graphql is its SDL),    *)
(* selection atoms, a menu of named fragments and the reference semantics CollectFields of   *)
(* the GraphQL specification (6.3.2) restricted to what the universe needs.                   *)
EXTENDS Naturals, Sequences, FiniteSets, TLC

Objects    == {"A", "B", "C", "D"}
Interfaces == {"J", "I"}
Unions     == {"U"}
AbstractT  == Interfaces \cup Unions
Composite  == Objects \cup AbstractT \cup {"Query"}

\* possible runtime types of a (composite) type
Possible == [J |-> {"A", "B", "C"}, I |-> {"A", "B"}, U |-> {"A", "D"},
             A |-> {"A"}, B |-> {"B"}, C |-> {"C"}, D |-> {"D"}, Query |-> {"Query"}]
\* every type condition an object of runtime type t satisfies
Supers == [A |-> {"A", "I", "J", "U"}, B |-> {"B", "I", "J"}, C |-> {"C", "J"}, D |-> {"D", "U"}, Query |-> {"Query"}]
\* interfaces a type declares (what `type.interfaces` holds in graphql-core)
Declared == [A |-> {"I", "J"}, B |-> {"I", "J"}, C |-> {"J"}, D |-> {}, I |-> {"J"}, J |-> {}, U |-> {}, Query |-> {}]

\* wrapper shapes: outer nullability, list depth, innermost item nullability
Wrappers == {"T", "T!", "[T]", "[T]!", "[T!]", "[T!]!", "[[T!]]"}
Nullable(w)  == w \in {"T", "[T]", "[T!]", "[[T!]]"}
ListDepth(w) == CASE w \in {"T", "T!"} -> 0 [] w = "[[T!]]" -> 2 [] OTHER -> 1
\* nullability of the element at each list level, outermost first (length = ListDepth)
ItemNullable(w) == CASE w \in {"[T]", "[T]!"} -> <<TRUE>> [] w \in {"[T!]", "[T!]!"} -> <<FALSE>>
                     [] w = "[[T!]]" -> <<TRUE, FALSE>> [] OTHER -> <<>>

F(n, w) == [named |-> n, w |-> w]
JF == [id |-> F("ID", "T!"), name |-> F("String", "T")]
IF_ == JF @@ [rank |-> F("Int", "T!")]
FieldsOf ==
  [ J |-> JF,
    I |-> IF_,
    A |-> IF_ @@ [a1 |-> F("String", "T!"), tags |-> F("String", "[T!]!"), friend |-> F("J", "T"),
                  color |-> F("Color", "T"), when |-> F("Date", "T")],
    B |-> IF_ @@ [b1 |-> F("Int", "T"), score |-> F("Float", "T!"), flags |-> F("Boolean", "[T]")],
    C |-> JF @@ [c1 |-> F("Boolean", "T")],
    D |-> [id |-> F("ID", "T!"), d1 |-> F("Float", "T"), owner |-> F("A", "T!")],
    U |-> << >>,
    Query |-> [j |-> F("J", "T"), i |-> F("I", "T!"), u |-> F("U", "T"), us |-> F("U", "[T!]!"), js |-> F("J", "[T]"),
               a |-> F("A", "T"), aList |-> F("A", "[T!]"), d |-> F("D", "T"), mat |-> F("A", "[[T!]]")] ]
HasField(T, f) == f \in DOMAIN FieldsOf[T]
IsCompositeField(T, f) == FieldsOf[T][f].named \in Composite
\* the Python-level kind a leaf is declared with (Date is an unconfigured custom scalar -> Any)
KindOf(named) == CASE named \in Composite -> "object" [] named = "Color" -> "enum" [] named = "Date" -> "any"
                   [] named \in {"ID", "String"} -> "str" [] named = "Int" -> "int" [] named = "Float" -> "float"
                   [] named = "Boolean" -> "bool"

\* ---- selections ---------------------------------------------------------------------------
\* field atom   [k |-> "f", name, alias ("-" = none), cond ("none" | "include" | "skip"), sels]
\* inline       [k |-> "i", on ("-" = no type condition), cond, sels]
\* spread       [k |-> "s", frag, cond]
Fld(n, al, c, s) == [k |-> "f", name |-> n, alias |-> al, cond |-> c, sels |-> s]
Leaf(n)          == Fld(n, "-", "none", <<>>)
Inl(on, c, s)    == [k |-> "i", on |-> on, cond |-> c, sels |-> s]
Spr(f, c)        == [k |-> "s", frag |-> f, cond |-> c]

\* the named fragments of the universe (queries files always define all of them)
FragOn   == [FJ |-> "J", FI |-> "I", FA |-> "A", FA2 |-> "A", FU |-> "U", FD |-> "D", FInl |-> "J", FB |-> "B", FAfr |-> "A", FDo |-> "D", FA3 |-> "A"]
FragSels == [FJ   |-> <<Leaf("id"), Leaf("name")>>,
             FI   |-> <<Leaf("rank")>>,
             FA   |-> <<Leaf("a1"), Leaf("tags")>>,
             FA2  |-> <<Spr("FA", "none"), Leaf("color")>>,
             FU   |-> <<Inl("A", "none", <<Leaf("a1")>>), Inl("D", "none", <<Leaf("d1")>>)>>,
             FD   |-> <<Leaf("d1")>>,
             FInl |-> <<Leaf("id"), Inl("A", "none", <<Leaf("a1")>>)>>,
             FB   |-> <<Leaf("b1")>>,
             \* a fragment whose selection holds an abstract-typed sub-field (the generator adds __typename inside it)
             FAfr |-> <<Fld("friend", "-", "none", <<Leaf("id")>>)>>,
             \* two levels: a fragment that spreads FAfr inside a nested field (FAfr's abstract sub-field needs __typename in
             \* every document that reaches it, also when only a base class of a base class uses it)
             FDo  |-> <<Fld("owner", "-", "none", <<Spr("FAfr", "none")>>)>>,
             \* a chain of three base classes (FA3 -> FA2 -> FA): spreading FA2 and FA3 side by side needs the right base order
             FA3  |-> <<Spr("FA2", "none"), Leaf("rank")>>]
FragNames == DOMAIN FragOn

Overlaps(S, T) == Possible[S] \cap Possible[T] # {}
Key(a) == IF a.alias # "-" THEN a.alias ELSE a.name

\* ---- CollectFields (GraphQL spec 6.3.2) for an object of runtime type t ------------------
\* entries: [key, name, cond (TRUE = may be absent because of @skip/@include), sels]
RECURSIVE Collect(_, _, _)
CollectAtom(t, a, c) ==
  LET c2 == c \/ a.cond # "none" IN
  CASE a.k = "f" -> {[key |-> Key(a), name |-> a.name, cond |-> c2, sels |-> a.sels]}
    [] a.k = "i" -> IF a.on = "-" \/ a.on \in Supers[t] THEN Collect(t, a.sels, c2) ELSE {}
    [] a.k = "s" -> IF FragOn[a.frag] \in Supers[t] THEN Collect(t, FragSels[a.frag], c2) ELSE {}
Collect(t, sels, c) == UNION {CollectAtom(t, sels[i], c) : i \in DOMAIN sels}

Keys(t, sels)       == {e.key : e \in Collect(t, sels, FALSE)}
AlwaysKeys(t, sels) == {e.key : e \in {x \in Collect(t, sels, FALSE) : ~x.cond}}
\* schema field behind a response key (all entries of one key agree, by FieldsInSetCanMerge)
NameOfKey(t, sels, key) == (CHOOSE e \in Collect(t, sels, FALSE) : e.key = key).name
\* merged sub-selections of a key (spec: MergeSelectionSets), in a canonical order
SubSels(t, sels, key) ==
  LET es == {e \in Collect(t, sels, FALSE) : e.key = key}
      RECURSIVE Cat(_)
      Cat(S) == IF S = {} THEN <<>> ELSE LET e == CHOOSE x \in S : TRUE IN e.sels \o Cat(S \ {e})
  IN Cat(es)
\* is the key conditional for every way it is selected (i.e. may the server legitimately omit it)?
KeyConditional(t, sels, key) == key \notin AlwaysKeys(t, sels)
=============================================================================
