"""Shared core of C03 / C07 (argument side): cases enumerated by TLC (Variables!Cases) -> schema + operations ->
generated package -> calls through MockTransport + graphql-core with a recording resolver."""
from __future__ import annotations

import json

from .common import run_tlc, tlc_must_pass, Machinery
from .gen import write_job, generate, run_in_pkg

NAMED = {"int": "Int", "enum": "Color", "ser": "Stamp", "native": "Day", "raw": "Raw", "input": "Leaf"}
WRAP = {"T": "{}", "T!": "{}!", "[T]": "[{}]", "[T]!": "[{}]!", "[T!]": "[{}!]", "[T!]!": "[{}!]!", "[[T!]]": "[[{}!]]"}
WIDX = {w: i for i, w in enumerate(WRAP)}
# the default literal of a variable that declares one (kind, wrapper) -> (GraphQL literal, value the resolver then receives)
DEFAULTS = {("int", "T"): ("77", 77), ("int", "[T!]"): ("[77, 78]", [77, 78]), ("enum", "T"): ("GREEN", "GREEN"),
            ("enum", "[T!]"): ("[GREEN, RED]", ["GREEN", "RED"])}

SCALARS_MOD = '''
LOG = []


class Stamp:
    def __init__(self, n):
        if isinstance(n, str):           # the class used as its own parser (parse = type): raw wire value "S:<n>"
            LOG.append(["parse", n])
            n = int(n[2:]) if n.startswith("S:") else -1
        self.n = n

    def __eq__(self, other):
        return isinstance(other, Stamp) and other.n == self.n

    def __repr__(self):
        return f"Stamp({self.n})"

    def __bool__(self):          # like datetime.timedelta(0) or Decimal(0): a valid value that is falsy
        return self.n != 0


def _describe(v):
    if isinstance(v, Stamp):
        return "leaf"
    if v is None:
        return "none"
    if isinstance(v, list):
        return "whole_list"
    if type(v).__name__ == "UnsetType":
        return "unset"
    return "other:" + type(v).__name__


def serialize_stamp(v):
    LOG.append(["ser", _describe(v)])
    return f"S:{v.n}" if isinstance(v, Stamp) else f"BAD:{type(v).__name__}"


def parse_stamp(raw):
    LOG.append(["parse", raw if isinstance(raw, (str, int, float, type(None))) else "other:" + type(raw).__name__])
    if isinstance(raw, str) and raw.startswith("S:"):
        return Stamp(int(raw[2:]))
    return Stamp(-1)
'''

SCALARS_CFG = {"Stamp": {"type": ".scalars_mod.Stamp", "serialize": ".scalars_mod.serialize_stamp", "parse": ".scalars_mod.parse_stamp"},
               "Day": {"type": "datetime.date"}}


def enumerate_cases(work, deviations="Intended0"):
    out = work.dir / f"var_cases_{deviations}.json"
    cfg = ("SPECIFICATION Spec\nCONSTANTS Wrappers <- AllWrappers\n Kinds <- AllKinds\n Positions <- AllPositions\n States <- AllStates\n"
           f" Deviations <- {deviations}\n")
    if deviations == "Intended0":
        cfg += ("INVARIANT DeliveredIsIntended\nINVARIANT OmittedAbsent\nINVARIANT NoneIsNull\nINVARIANT SerializeOncePerNonNull\n"
                "INVARIANT NeverSerializeNoneOrOmitted\nINVARIANT OnlySerScalarsSerialized\nINVARIANT RequiredNotOmittable\n")
    else:
        cfg += ("INVARIANT DeliveredIsIntendedK\nINVARIANT OmittedAbsentK\nINVARIANT NoneIsNullK\nINVARIANT SerializeOnceK\n"
                "INVARIANT NeverSerializeNoneK\nINVARIANT OnlySerScalarsSerialized\nINVARIANT RequiredNotOmittable\n")
    cfg += "CHECK_DEADLOCK FALSE\n"
    res = run_tlc("Variables_MC", cfg, work.sub("tlc_var"), env={"OUT_FILE": str(out)}, workers=4, timeout=600)
    tlc_must_pass(res, f"Variables_MC {deviations}")
    return json.loads(out.read_text()), res


def sig_key(c):
    return f"{c['kind']}_{WIDX[c['w']]}"


def build_project(cases, subscriptions=False, only_ops=None):
    """One schema + one queries file covering every (kind, wrapper) signature in the three positions (+ the two
    subscription positions when the client is asynchronous)."""
    sigs = sorted({(c["kind"], c["w"]) for c in cases})
    sfields = []
    sdl = ["scalar Stamp", "scalar Day", "scalar Raw", "enum Color { RED GREEN in }", "input Leaf { x: Int y: Int }"]
    qfields, ops = [], []
    for kind, w in sigs:
        t = WRAP[w].format(NAMED[kind])
        k = f"{kind}_{WIDX[w]}"
        sdl.append(f"input FIn_{k} {{ a: {t} pad: Int }}")
        sdl.append(f"input NOut_{k} {{ inner: FIn_{k} pad: Int }}")
        sdl.append(f"input Rec_{k} {{ a: {t} next: Rec_{k} pad: Int }}")
        qfields.append(f"  echoV_{k}(a: {t}): Boolean")
        qfields.append(f"  echoF_{k}(i: FIn_{k}): Boolean")
        qfields.append(f"  echoN_{k}(o: NOut_{k}): Boolean")
        qfields.append(f"  echoRc_{k}(r: Rec_{k}): Boolean")
        ops.append(f"query OpV_{k}($a: {t}) {{ echoV_{k}(a: $a) }}")
        ops.append(f"query OpF_{k}($i: FIn_{k}) {{ echoF_{k}(i: $i) }}")
        ops.append(f"query OpN_{k}($o: NOut_{k}) {{ echoN_{k}(o: $o) }}")
        ops.append(f"query OpRc_{k}($r: Rec_{k}) {{ echoRc_{k}(r: $r) }}")
        if (kind, w) in DEFAULTS and any(c.get("dflt") for c in cases):
            lit = DEFAULTS[(kind, w)][0]
            ops.append(f"query OpVD_{k}($a: {t} = {lit}) {{ echoV_{k}(a: $a) }}")
            if subscriptions:
                ops.append(f"subscription OpSVD_{k}($a: {t} = {lit}) {{ subV_{k}(a: $a) }}")
        if subscriptions:
            sfields.append(f"  subV_{k}(a: {t}): Boolean")
            sfields.append(f"  subF_{k}(i: FIn_{k}): Boolean")
            ops.append(f"subscription OpSV_{k}($a: {t}) {{ subV_{k}(a: $a) }}")
            ops.append(f"subscription OpSF_{k}($i: FIn_{k}) {{ subF_{k}(i: $i) }}")
    rfields = []
    for kind, w in sigs:
        if kind not in ("ser", "native", "raw"):
            continue
        t = WRAP[w].format(NAMED[kind])
        k = f"{kind}_{WIDX[w]}"
        rfields.append(f"  r_{k}: {t}")
        ops.append(f"query OpR_{k} {{ res {{ r_{k} }} }}")
        ops.append(f"query OpRN_{k} {{ res {{ pad child {{ r_{k} }} }} }}")
        ops.append(f"query OpRF_{k} {{ res {{ ...FR_{k} }} }}")
        ops.append(f"fragment FR_{k} on RT {{ r_{k} }}")
        ops.append(f"query OpRU_{k} {{ resU {{ __typename ... on RT {{ r_{k} }} ... on RT2 {{ r_{k} }} }} }}")
    if rfields:
        sdl.append("type RT {\n  pad: Int\n  child: RT\n" + "\n".join(rfields) + "\n}")
        sdl.append("type RT2 {\n  pad: Int\n" + "\n".join(rfields) + "\n}")
        sdl.append("union RU = RT | RT2")
        qfields.append("  res: RT")
        qfields.append("  resU: [RU]")
    sdl.append("type Query {\n" + "\n".join(qfields) + "\n}")
    if sfields:
        sdl.append("type Subscription {\n" + "\n".join(sfields) + "\n}")
    if only_ops:          # keep only the operations whose name starts with one of the prefixes (pruned-package variants)
        ops = [o for o in ops if any(o.split("(")[0].split("{")[0].split()[1].startswith(pre) for pre in only_ops)]
    return "\n".join(sdl) + "\n", "\n\n".join(ops) + "\n"


def generate_project(work, cases, options, tag, only_ops=None):
    sdl, qs = build_project(cases, subscriptions=bool(options.get("async_client")) and not only_ops, only_ops=only_ops)
    job = write_job(work.dir / f"job_{tag}", schema=sdl, queries=qs, package="gclient",
                    options=dict(options, files_to_include=["scalars_mod.py"]), scalars=SCALARS_CFG,
                    files={"scalars_mod.py": SCALARS_MOD})
    r = generate(job)
    return job, r, sdl


def drive(job, cases, sdl, is_async):
    return run_in_pkg(job, "harness.pkg.variables", {"package": "gclient", "cases": cases, "sdl": sdl, "async": is_async}, timeout=1800)
