from gen import *
import asyncio, httpx, json
from graphql import build_schema, parse, validate
schema = '''
enum Color { RED }
input Flt { q: String }
type Item { id: ID! subItems(firstN: Int, tags: [String!]): [Item!]! displayName(upper: Boolean): String }
type Query { itemList(idsIn: [ID!]!, flt: Flt, c: Color): [Item!]! oneItem(id: ID!): Item }
'''
d, n, r = generate(schema, None, extra='enable_custom_operations=true'); show(r)
m = load(d, n)
cq = importlib.import_module(n + ".custom_queries"); cf = importlib.import_module(n + ".custom_fields")
sent = []
def handler(request):
    sent.append(json.loads(request.content)); return httpx.Response(200, json={"data": {}})
gs = build_schema(schema)
async def go(*fields):
    c = m.Client(url="http://x", http_client=httpx.AsyncClient(transport=httpx.MockTransport(handler)))
    await c.query(*fields, operation_name="Op")
    body = sent[-1]; print(body["query"].replace("\n", " "), "| vars", body["variables"])
    errs = validate(gs, parse(body["query"])); print("   valid" if not errs else "   INVALID: " + "; ".join(e.message for e in errs)[:300])
Q, ItemFields = cq.Query, cf.ItemFields
asyncio.run(go(Q.item_list(ids_in=["1"]).fields(ItemFields.id)))
asyncio.run(go(Q.one_item(id="1").fields(ItemFields.id, ItemFields.display_name(upper=True))))
asyncio.run(go(Q.one_item(id="1").fields(ItemFields.sub_items(first_n=1).fields(ItemFields.sub_items(first_n=2).fields(ItemFields.id)))))
asyncio.run(go(Q.one_item(id="1").fields(ItemFields.id.alias("x"))))
asyncio.run(go(Q.one_item(id="1").fields(ItemFields.id)))
