"""C10 -- generation is deterministic and idempotent.

leg 1: TLC checks Determinism: with every emission point order-normalised the output is a function of the input for all
       environments (hash seed, file creation order, fresh / existing target); with one point un-normalised (the pre-fix
       fragment dependency visit) the invariant must fail (anti-vacuity).
leg 2/3: inputs that stress every emission point are generated in subprocesses under several PYTHONHASHSEED values, with the
       source files created in different orders, into a fresh directory and over a previous generation; the sha256 of every
       generated file is compared and the run traces are validated by Determinism_Trace.
"""
import hashlib
import json
import os
import shutil

from ..common import Verdict, run_tlc, tlc_must_pass, validate_traces, pmap, Machinery, seed
from ..gen import write_job, generate, toml_val
from ..universe import gamma
from .c14 import SCHEMA as BUILDER_SCHEMA

MC = """SPECIFICATION Spec
CONSTANTS Inputs <- SomeInputs
 Uses <- UsesOf
 Points <- {points}
 Seeds <- S3
 FileOrders <- O2
 Targets <- T2
 MaxRuns = 3
INVARIANT Deterministic
CHECK_DEADLOCK FALSE
"""
FRAG_Q = """
fragment AaCard on A { ...Zeta ...Base2 ...Base3 ...Base4 ...Mid }
fragment Zeta on A { id }
fragment Base2 on A { name }
fragment Base3 on A { rank }
fragment Base4 on A { a1 }
fragment Mid on A { ...Base4 ...Zeta color }
fragment OnJ on J { id ...OnI }
fragment OnI on I { rank }
query QOne { a { ...AaCard } }
query QTwo { aList { ...Mid ...Base2 ...Base3 } j { ...OnJ } }
query QThree { a { ...Base3 ...Base2 ...Zeta ...Base4 } }
"""
UNION_Q = """
query UOne { us { ... on A { a1 color } ... on D { d1 } } js { id ... on B { b1 } ... on C { c1 } } u { __typename } }
query UTwo { j { id ... on A { friend { id ... on B { b1 } ... on A { a1 } } } } }
"""
PRUNE_SDL = """
enum E1 { A1 B1 } enum E2 { A2 } enum E3 { A3 } enum E4 { A4 }
input In1 { v: Int r2: In2 e1: E1 = A1 } input In2 { v: Int r3: In3 r1: In1 } input In3 { e3: E3 } input In4 { e4: E4 }
type R { id: ID! e1: E1 e2: E2 e4: E4 }
type Query { f(i1: In1, i2: In2, i3: In3, i4: In4, q1: E1, q2: E2): R }
"""
PRUNE_Q = """
query P1($i2: In2, $q2: E2) { f(i2: $i2, q2: $q2) { id ...Fr } }
query P2($i3: In3) { f(i3: $i3) { id r: e1 } }
fragment Fr on R { g: e2 }
"""
PLUGINS = ["ariadne_codegen.contrib.client_forward_refs.ClientForwardRefsPlugin", "ariadne_codegen.contrib.shorter_results.ShorterResultsPlugin",
           "ariadne_codegen.contrib.extract_operations.ExtractOperationsPlugin"]


LISTING = {0: "sorted", 1: "reverse", 2: "rotate", 3: "swapcase"}


def inputs():
    split_schema = {"b/types.graphql": "type Item { id: ID! n: Name c: Color }\n", "a/enums.graphqls": "enum Color { RED GREEN }\n",
                    "root.gql": "scalar Name\ntype Query { item(id: ID!): Item items: [Item!]! }\n"}
    split_queries = {"z.graphql": "query GetZ { items { id c } }\n", "sub/a.graphql": "query GetA($id: ID!) { item(id: $id) { ...P } }\n",
                     "sub/p.gql": "fragment P on Item { id n }\n"}
    return [
        ("fragments_multi_dep", "client", dict(schema=gamma.SDL, queries=FRAG_Q, options={"async_client": True})),
        ("unions", "client", dict(schema=gamma.SDL, queries=UNION_Q, options={"async_client": False})),
        ("pruned", "client", dict(schema=PRUNE_SDL, queries=PRUNE_Q, options={"include_all_inputs": False, "include_all_enums": False})),
        ("plugins", "client", dict(schema=gamma.SDL, queries=UNION_Q + FRAG_Q, options={"plugins": PLUGINS})),
        # plugins enabled by MODULE name: the explorer discovers every plugin class of the module; their order decides the output
        ("plugins_by_module", "client", dict(schema=gamma.SDL, queries=UNION_Q, options={"plugins": ["harness.verif_plugins_pkg", "harness.verif_plugins"],
                                                                                          "include_comments": "stable"})),
        ("plugins_by_module_schema", "graphqlschema", dict(schema=split_schema, queries=None,
                                                            options={"target_file_path": "out_schema.graphql", "plugins": ["harness.verif_plugins_pkg"]})),
        # generated code that imports the generated package ITSELF by absolute name (a scalar typed gclient.custom_scalars.Code):
        # import sorting decides first-party / third-party by looking at the working directory, which differs between a
        # fresh generation and a regeneration unless every module is rendered after the package directory exists
        ("self_import_scalar", "client", dict(schema="scalar Code\ntype Item { id: ID! itemCode: Code }\ntype Query { item: Item }\n",
                                              queries="query GetItem { item { id itemCode } }\nfragment ItemBits on Item { itemCode }\nquery GetBits { item { ...ItemBits } }\n",
                                              options={"files_to_include": ["custom_scalars.py"], "include_comments": "stable"},
                                              scalars={"Code": {"type": "gclient.custom_scalars.Code"}},
                                              files={"custom_scalars.py": "class Code(str):\n    pass\n"})),
        ("self_import_scalar_in_input", "client", dict(schema="scalar Code\ninput Flt { code: Code }\ntype Item { id: ID! itemCode: Code }\ntype Query { item(f: Flt): Item }\n",
                                                       queries="query GetItem($f: Flt) { item(f: $f) { id itemCode } }\n",
                                                       options={"files_to_include": ["custom_scalars.py"], "include_comments": "stable"},
                                                       scalars={"Code": {"type": "gclient.custom_scalars.Code"}},
                                                       files={"custom_scalars.py": "class Code(str):\n    pass\n"})),
        ("custom_ops", "client", dict(schema=BUILDER_SCHEMA, queries="query One { version }\n", options={"enable_custom_operations": True})),
        ("schema_strategy", "graphqlschema", dict(schema=gamma.SDL, queries=None, options={"target_file_path": "out_schema.py"})),
        ("schema_strategy_sdl", "graphqlschema", dict(schema=split_schema, queries=None, options={"target_file_path": "out_schema.graphql"})),
        ("split_files", "client", dict(schema=split_schema, queries=split_queries, options={"include_comments": "stable"})),
        # names that differ only in letter case / are prefixes of each other: legal on a case-sensitive file system
        ("case_names", "client", dict(schema={"Types.graphql": "type Item { id: ID! c: Color s: Size }\n", "types.graphql": "enum Color { RED GREEN }\n",
                                              "TYPES.graphql": "enum Size { S M }\ninput Flt { c: Color s: Size }\n",
                                              "Sub/x.graphql": "input Page { n: Int }\n", "sub/x.graphql": "type Query { items(f: Flt, p: Page): [Item!]! }\n"},
                                      queries={"Get.graphql": "query GetUpper { items { id c } }\n", "get.graphql": "query GetLower($f: Flt) { items(f: $f) { id s } }\n",
                                               "get.gql": "query GetGql($p: Page) { items(p: $p) { id } }\n"},
                                      options={"include_comments": "stable"})),
        ("case_names_schema", "graphqlschema", dict(schema={"Types.graphql": "type Item { id: ID! c: Color }\n", "types.graphql": "enum Color { RED GREEN }\n",
                                                            "Sub/x.graphql": "input Page { n: Int }\n", "sub/x.graphql": "type Query { items(p: Page): [Item!]! }\n"},
                                             queries=None, options={"target_file_path": "out_schema.py"})),
    ]


def digest(root, strategy, opts):
    h = {}
    if strategy == "client":
        base = root / "gclient"
        for dp, dn, fn in os.walk(base):
            if "__pycache__" in dp:
                continue
            for f in fn:
                p = os.path.join(dp, f)
                h[os.path.relpath(p, base)] = hashlib.sha256(open(p, "rb").read()).hexdigest()
    else:
        p = root / opts["target_file_path"]
        h[opts["target_file_path"]] = hashlib.sha256(p.read_bytes()).hexdigest() if p.exists() else "missing"
    return h


def make(job, spec, order, strategy):
    """write the project; files of directory sources are created in the given permutation"""
    kw = dict(spec)
    opts = dict(kw.pop("options"))
    if strategy == "graphqlschema":
        opts.pop("target_package_name", None)
    sch, qs = kw["schema"], kw["queries"]
    job.mkdir(parents=True, exist_ok=True)
    cfg = ["[tool.ariadne-codegen]"]

    def put(name, content):
        if isinstance(content, dict):
            items = sorted(content.items())
            if order % 2 == 1:
                items = items[::-1]
            if order >= 2:
                items = items[1:] + items[:1]
            for rel, txt in items:
                p = job / name / rel
                p.parent.mkdir(parents=True, exist_ok=True)
                p.write_text(txt)
            return name
        (job / (name + ".graphql")).write_text(content)
        return name + ".graphql"
    cfg.append(f'schema_path = "{put("schema", sch)}"')
    if qs is not None:
        cfg.append(f'queries_path = "{put("queries", qs)}"')
    if strategy == "client":
        opts.setdefault("target_package_name", "gclient")
        opts.setdefault("include_comments", "stable")
    for k, v in opts.items():
        cfg.append(f"{k} = {toml_val(v)}")
    for sname, sdata in (kw.get("scalars") or {}).items():
        cfg.append(f"\n[tool.ariadne-codegen.scalars.{sname}]")
        for k, v in sdata.items():
            cfg.append(f"{k} = {toml_val(v)}")
    for rel, txt in (kw.get("files") or {}).items():
        (job / rel).write_text(txt)
    (job / "pyproject.toml").write_text("\n".join(cfg) + "\n")
    return opts


def run(tier, work, replay=None):
    v = Verdict("C10", tier)
    q = tier == "quick"
    r1 = run_tlc("Determinism_MC", MC.format(points="AsBuiltPoints"), work.sub("tlc"), workers=4, coverage=q)
    tlc_must_pass(r1, "Determinism as built")
    v.add_tlc(r1, "Determinism: every emission point normalised")
    for pts in ("PreFixPoints", "ListingPoints"):
        r2 = run_tlc("Determinism_MC", MC.format(points=pts), work.sub("tlc"), workers=2)
        if "Deterministic" not in r2.invariant_violated:
            raise Machinery(f"anti-vacuity: {pts} does not violate Deterministic")
    s0 = seed()
    seeds = [0, 1, 2 + s0] if q else [0, 1, 2, 3, 5, 8, 13, 21, 34, 55, 89, 144, 233, 377] + [1000 * k + s0 for k in range(1, 35)]
    envs = [(sd, 0, "fresh") for sd in seeds] + [(seeds[0], 1, "fresh"), (seeds[1], 2, "fresh"), (seeds[-1], 0, "existing"), (seeds[0], 3, "existing")]
    ins = inputs()

    def one(t):
        ii, (name, strategy, spec) = t
        runs = []
        prev_job = None
        for k, (sd, order, target) in enumerate(envs):
            job = work.dir / f"det_{name}_{k}"
            if target == "existing" and prev_job is not None:
                shutil.copytree(prev_job, job)
                for p in ("schema", "queries"):
                    shutil.rmtree(job / p, ignore_errors=True)
            opts = make(job, spec, order, strategy)
            # the directory listing order follows the creation order (made explicit: see drive_gen.install_listing)
            r = generate(job, strategy, hashseed=sd, env={"VERIF_LISTING": LISTING[order]})
            d = digest(job, strategy, opts) if r["exc_class"] is None else {"@error": r["exc_class"] + ": " + (r["exc_msg"] or "")[:200]}
            runs.append({"seed": sd, "order": order, "target": target, "files": d,
                         "digest": hashlib.sha256(json.dumps(d, sort_keys=True).encode()).hexdigest()})
            if prev_job is None:
                prev_job = job
        for k in range(len(envs)):
            shutil.rmtree(work.dir / f"det_{name}_{k}", ignore_errors=True)
        return name, strategy, runs

    # ---- the repository's own example projects as additional inputs (all of them in the thorough tier, a seeded third in quick)
    from .. import corpus

    def digest_target(target):
        h = {}
        if target.is_dir():
            for dp, dn, fn in os.walk(target):
                if "__pycache__" in dp:
                    continue
                for f in fn:
                    pth = os.path.join(dp, f)
                    h[os.path.relpath(pth, target)] = hashlib.sha256(open(pth, "rb").read()).hexdigest()
        else:
            h[target.name] = hashlib.sha256(target.read_bytes()).hexdigest() if target.exists() else "missing"
        return h

    def one_corpus(t):
        ii, proj = t
        runs = []
        cenvs = envs if not q else [envs[0], envs[1], envs[len(seeds)], envs[-2]]
        prev = None
        for k, (sd, order, target) in enumerate(cenvs):
            job = work.dir / f"corp_{ii}_{k}"
            if target == "existing" and prev is not None:
                shutil.copytree(prev, job)
            cfgname, tgt = corpus.stage(job, proj)
            r = generate(job, proj["strategy"], hashseed=sd, env={"VERIF_LISTING": LISTING[order]}, config=cfgname)
            d = digest_target(tgt) if r["exc_class"] is None else {"@error": r["exc_class"] + ": " + (r["exc_msg"] or "")[:200]}
            runs.append({"seed": sd, "order": order, "target": target, "files": d,
                         "digest": hashlib.sha256(json.dumps(d, sort_keys=True).encode()).hexdigest()})
            if prev is None:
                prev = job
        for k in range(len(cenvs)):
            shutil.rmtree(work.dir / f"corp_{ii}_{k}", ignore_errors=True)
        return "corpus:" + proj["name"], proj["strategy"], runs
    projs = corpus.projects()
    if q:
        projs = [pj for k, pj in enumerate(projs) if (k + s0) % 3 == 0]
    outs = pmap(one, list(enumerate(ins))) + pmap(one_corpus, list(enumerate(projs)))
    v.cov["corpus_projects"] = [pj["name"] for pj in projs]
    traces = []
    n = 0
    for name, strategy, runs in outs:
        n += len(runs)
        base = runs[0]
        if "@error" in base["files"]:
            v.violation({"input": name}, "gen_crash", base["files"])
            continue
        for r in runs[1:]:
            if r["files"] != base["files"]:
                diff = sorted(f for f in set(base["files"]) | set(r["files"]) if base["files"].get(f) != r["files"].get(f))
                what = "hash_seed" if (r["order"] == 0 and r["target"] == "fresh") else ("file_creation_order" if r["target"] == "fresh" else "regenerate_over_existing")
                v.violation({"input": name, "differs_with": what}, "output_differs:" + what,
                            {"seed": r["seed"], "order": r["order"], "target": r["target"], "files": diff[:6]})
        traces.append([{"e": "case", "input": name}] + [{"e": "run", "seed": r["seed"], "order": r["order"], "target": r["target"], "digest": r["digest"]} for r in runs])
    tres, rejected, inv = validate_traces("Determinism_Trace", "Determinism_Trace.cfg", traces, work.sub("tv"))
    v.add_tlc(tres, "Determinism_Trace")
    bad = set(rejected) | {t for _, t in inv if t is not None}
    for t in sorted(bad):
        v.violation({"input": traces[t][0]["input"], "differs_with": "trace"}, "trace_rejected", {"trace": traces[t], "matched_prefix": rejected.get(t)})
    v.cov["evaluations"] = n
    v.cov["traces_validated_against_impl"] = len(traces) - len(bad)
    v.cov["distinct_nontrivial"] = len(ins)
    v.cov["environments_per_input"] = len(envs)
    v.cov["rule"] = ("inputs = one per emission point family (fragments with >=2 dependencies sorted first, unions / interfaces, pruned "
                     "inputs+enums, the three code-moving plugins, custom operations, graphqlschema to .py and .graphql, sources split "
                     "over files and sub-directories); each generated under every hash seed of the tier, permuted file creation orders, "
                     "fresh and over a previous generation; every input is non-trivial by construction")
    v.cov["exhaustive"] = False
    v.sample({"input": traces[0][0]["input"], "runs": traces[0][1:4]})
    v.assumptions += ["sha256 of every file under the target; comment mode is not 'timestamp'"]
    return v.finish()
