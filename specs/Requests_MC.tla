----------------------------- MODULE Requests_MC -----------------------------
EXTENDS Requests, Json, IOUtils
\* ---- the variables trees explored ----
L0 == {Lf(x) : x \in {"s", "n", "e", "d", "u1", "u2", "m", "mu"}}
\* plain dicts do not get models converted (statement: judged only on what it fixes): no models inside dicts
L0d == {Lf(x) : x \in {"s", "n", "e", "u1", "u2"}}
Lists(S) == {<<"L", a>> : a \in S} \cup {<<"L", a, b>> : a \in S, b \in S}
Dicts(S) == {<<"D", a>> : a \in S} \cup {<<"D", a, b>> : a \in S, b \in S}
D1 == Lists(L0) \cup Dicts(L0d)
\* depth 2: one nested container next to a leaf
D2 == {<<"L", a, b>> : a \in D1, b \in {Lf("s"), Lf("u1"), Lf("u2")}} \cup {<<"D", a, b>> : a \in Dicts(L0d) \cup Lists(L0d), b \in {Lf("n"), Lf("u1")}}
       \cup {<<"L", a>> : a \in D1}
Second == {Lf("absent"), Lf("unset"), Lf("s"), Lf("u1"), <<"L", Lf("u1"), Lf("u2")>>}
TreesSmall == {<<"V", a, b>> : a \in L0 \cup D1, b \in Second}
TreesFull == {<<"V", a, b>> : a \in L0 \cup D1 \cup D2, b \in Second}
ConcTrees == {<<"V", a, b>> : a \in {Lf("s"), Lf("u1"), <<"L", Lf("u1"), Lf("m")>>, <<"D", Lf("u2"), Lf("s")>>}, b \in {Lf("absent"), Lf("u1")}}
\* trees in which one plain dict OBJECT occurs at two positions (the harness builds equal "D" sub-trees once: alias = TRUE)
Atts == {<<"D", Lf("u1")>>, <<"D", Lf("u1"), Lf("s")>>, <<"D", Lf("s"), Lf("u2")>>, <<"D", <<"L", Lf("u1")>>, Lf("n")>>}
AliasTrees == {<<"V", d, d>> : d \in Atts} \cup {<<"V", <<"D", d, <<"L", d>>>>, Lf("absent")>> : d \in Atts}
              \cup {<<"V", <<"L", d, d>>, Lf("u1")>> : d \in Atts}
NoDev == {}
NamedOnly == {"named"}
AllOpNames == OpNameModes
InPlace == {"in_place_nulling"}
NoReuse == {FALSE}
Bools == {TRUE, FALSE}
AllHdr == {"none", "own", "own_ct", "shared"}
HdrNone == {"none"}
\* export: every tree with the wire the spec demands for it
TreeSet == IF IOEnv.TREESET = "full" THEN TreesFull ELSE TreesSmall
ExportCases == LET ts == SetToSeq(TreeSet)  as == SetToSeq(AliasTrees) IN
  [i \in 1..Len(ts) |-> [tree |-> ts[i], wire |-> Wire(ts[i], "none"), ok |-> MultipartSpec(ts[i]), alias |-> FALSE]]
  \o [i \in 1..Len(as) |-> [tree |-> as[i], wire |-> Wire(as[i], "none"), ok |-> MultipartSpec(as[i]), alias |-> TRUE]]
ASSUME IOEnv.OUT_FILE = "" \/ JsonSerialize(IOEnv.OUT_FILE, ExportCases)
ASSUME \A t \in TreeSet \cup AliasTrees : MultipartSpec(t)
=============================================================================
