from gen import *
schema = '''
interface Node { id: ID! }
interface Named { name: String! }
type User implements Node & Named { id: ID! name: String! email: String }
type Bot implements Node { id: ID! model: String! }
union SR = User | Bot
type Query { node: Node! user: User search: [SR!]! nodes: [Node]! }
'''
# 1. fragment mixin in one place + unpacked in another
q = '''
fragment NF on Node { id }
query A { node { ...NF } }
query B { user { ...NF name } }
'''
d, n, r = generate(schema, q); show(r); print(r.output[-300:])
try:
    m = load(d, n); print("loaded", [x for x in dir(m) if x[0].isupper()][:30])
except Exception as e:
    print("LOAD FAIL", type(e).__name__, e)
print((d/n).exists() and sorted(os.listdir(d/n)))
