SPECIFICATION TraceSpec
CONSTANTS NF = 3
 MaxOps = 2
 MaxFields = 2
 Deviations <- NoDev
INVARIANT MixinClassExists
INVARIANT DepsBeforeDependants
INVARIANT OrderIsModule
INVARIANT DirectSpreadIsBase
INVARIANT StrictOrKnown
PROPERTY Monotone
CONSTRAINT Reached
POSTCONDITION Accepted
CHECK_DEADLOCK FALSE
