---------------------------- MODULE Determinism_MC ----------------------------
EXTENDS Determinism
\* emission points of the generator (found by reading the code: every place a set / dict of names / a directory listing
\* reaches emitted text) and whether each is order-normalised
AsBuiltPoints == [ fragment_dependency_visit |-> "sorted",     \* fragments._get_sorted_fragments_names: sorted(deps)  (fix F02)
                   fragment_roots |-> "sorted",                \* sorted(fragments_names)
                   fragment_worklist |-> "sorted",             \* FragmentsGenerator.generate: sorted work list (fix F03)
                   class_bases |-> "sorted",                   \* result_types: sorted(fragments) with a total key
                   typename_leftovers |-> "sorted",            \* _get_typename_values: set difference, sorted when emitted
                   operation_fragments |-> "sorted",           \* get_operation_as_str: sorted(related fragments)
                   imports |-> "sorted",                       \* isort + autoflake on every module
                   init_all |-> "sorted",                      \* init_file: names sorted
                   schema_files |-> "sorted",                  \* schema.load_graphql_files_from_path: sorted(walk)
                   forward_ref_types |-> "sorted",             \* client_forward_refs: TYPE_CHECKING imports sorted by isort
                   reported_files |-> "sorted" ]               \* generate(): sorted(generated files)
PreFixPoints == [AsBuiltPoints EXCEPT !.fragment_dependency_visit = "set"]
ListingPoints == [AsBuiltPoints EXCEPT !.schema_files = "listing"]
SomeInputs == {"fragments_multi_dep", "unions", "pruned", "plugins", "custom_ops", "schema_strategy", "split_files"}
UsesOf == [ fragments_multi_dep |-> {"fragment_dependency_visit", "fragment_roots", "fragment_worklist", "class_bases", "operation_fragments", "imports", "init_all"},
            unions |-> {"typename_leftovers", "imports", "init_all"},
            pruned |-> {"imports", "init_all", "reported_files"},
            plugins |-> {"forward_ref_types", "imports", "init_all"},
            custom_ops |-> {"imports", "init_all", "reported_files"},
            schema_strategy |-> {"schema_files"},
            split_files |-> {"schema_files", "imports"} ]
S3 == {0, 1, 2}
O2 == {0, 1}
T2 == {"fresh", "existing"}
=============================================================================
