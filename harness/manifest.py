"""Single source for MANIFEST.json: python -m harness.manifest  (re)writes /verif/MANIFEST.json."""
import json
from pathlib import Path

VERIF = Path(__file__).resolve().parent.parent

# pid -> (engine spec modules, technique, level text, level note, design ref)
CHECKS = {
    "C12": (["HttpOutcome", "HttpOutcome_MC", "HttpOutcome_Trace"],
            "TLA+ spec of the get_data decision chain, TLC exhaustive; TLC-exported cells replayed into the 4 generated-copy clients; event traces validated by HttpOutcome_Trace",
            "The status x body-class table is finite and enumerated completely by TLC; every cell is executed on all four bundled clients (get_data) and through a generated method, and each recorded trace (is_success read, json() call, outcome with attributes) must be a behaviour of the spec with all invariants holding.",
            "Trusts httpx.Response and TLC; body classes are represented by one concrete body each.", "§6 C12"),
}

CHECKS["C13"] = (["WsProtocol", "WsProtocol_MC", "WsProtocol_Trace"],
    "TLA+ spec of the graphql-transport-ws client session, TLC exhaustive over all frame sequences up to a bound; every TLC terminal state replayed into the real execute_ws / generated subscription method; client-side event traces (scripted and loop-back websockets server) validated by WsProtocol_Trace",
    "Every server frame sequence up to the bound (quick: <=5 frames model-checked, <=4 replayed; thorough: <=6 / <=5) over the 10 frame kinds of the statement is explored by TLC with all protocol invariants, and each is executed against the real iterator (plain, OTel, OTel+tracer; execute_ws and generated method); a trace the spec cannot explain, or a terminal state differing from TLC's, is a violation. The handshake clause runs against the installed websockets server on the loop-back interface.",
    "Scripted connection mimics a real one (stops after close). Frames whose treatment the statement does not fix (next with null data, client-only types) are observed only. The real-server handshake is a known finding (F15); the rest of real sessions is validated through a keyword-renaming adapter.",
    "§6 C13")

CHECKS["C14"] = (["Builder", "Builder_MC", "Builder_Trace"],
    "TLA+ spec of the builder heap (shared class-level field objects, fresh method results, object reuse across operations), to_ast variable naming and variable collection; TLC exhaustive + -simulate; every exported history replayed into the generated custom_fields/custom_queries + Client.query (sync/async), documents validated and executed with graphql-core; add/reuse/build traces validated by Builder_Trace",
    "All expression trees up to MaxNodes (quick 3, thorough 4) for single operations are enumerated exhaustively by TLC with DocValid/ArgsExact/history-freedom invariants; histories of up to 3 operations x 5 nodes with shared leaves and re-used objects are sampled with TLC -simulate; each is replayed into the real generated builder and the captured request is judged against the expression (structure, aliases, declared types, bound values), against graphql-core validation/execution, and by trace validation against the spec.",
    "Optional arguments all-or-none per node; one schema universe (camelCase names, list/non-null/input/enum/custom-scalar arguments, interface + union). graphql-core is the validity oracle. The alias leak on shared attributes is known finding F16d (deviation AliasCopies=FALSE).",
    "§6 C14")

NOT_YET = {}


def build():
    props = [json.loads(l) for l in (VERIF / "properties.jsonl").read_text().splitlines() if l.strip()]
    checks = []
    na = []
    for p in props:
        pid = p["id"]
        if pid in CHECKS:
            mods, tech, text, note, ref = CHECKS[pid]
            checks.append({
                "property_id": pid,
                "quick_cmd": f"./bin/check {pid} --tier quick",
                "thorough_cmd": f"./bin/check {pid} --tier thorough",
                "evidence_file": f"/verif/evidence/{pid}.json",
                "replay_cmd_template": f"./bin/check {pid} --replay {{path}}",
                "engine": "tla-mbv",
                "level_claimed": {"category": "model_checking", "text": text, "design_ref": ref},
                "level_note": note,
                "technique": tech,
            })
        else:
            na.append({"property_id": pid, "reason": NOT_YET.get(pid, "check not built yet in this round (work in progress; see DESIGN.md §6 for the planned TLA+ model and binding)")})
    m = {
        "version": 1,
        "setup_cmd": "./bin/setup",
        "hooks": {"guard": "ARIADNE_CODEGEN_VERIF", "enable": "checks export ARIADNE_CODEGEN_VERIF=1; no source hooks are needed so far (all observation points are public or injectable)",
                  "baseline_off_cmd": "/verif/bin/baseline", "source_commits": [], "add_only": True},
        "engines": [{"name": "tla-mbv", "path": "/verif/specs + /verif/harness",
                     "serves_properties": sorted(CHECKS),
                     "kind_free_text": "explicit TLA+ specification checked with TLC; spec->code replay of TLC-exported cases; code->spec trace validation with *_Trace.tla"}],
        "checks": checks,
        "not_applicable": na,
        "notes": "See DESIGN.md. Exit codes: 0 held / known findings only, 1 VIOLATION, 2 machinery failure.",
    }
    (VERIF / "MANIFEST.json").write_text(json.dumps(m, indent=1) + "\n")
    return m


if __name__ == "__main__":
    m = build()
    print(f"MANIFEST: {len(m['checks'])} checks, {len(m['not_applicable'])} not_applicable")
