"""Parent-side helpers to build generation jobs and run them, one subprocess per generation."""
from __future__ import annotations

import json
from pathlib import Path

from .common import run_py, Machinery


def toml_val(v):
    if isinstance(v, bool):
        return "true" if v else "false"
    if isinstance(v, (int, float)):
        return str(v)
    if isinstance(v, (list, tuple)):
        return "[" + ", ".join(toml_val(x) for x in v) + "]"
    if isinstance(v, dict):
        return "{" + ", ".join(f"{k} = {toml_val(x)}" for k, x in v.items()) + "}"
    return json.dumps(str(v))


def write_job(jobdir: Path, *, schema: str | dict | None, queries: str | dict | None, package: str = "gclient",
              options: dict | None = None, scalars: dict | None = None, files: dict | None = None,
              section: str = "tool.ariadne-codegen", raw_config: str | None = None,
              remote_schema_url: str | None = None) -> Path:
    jobdir.mkdir(parents=True, exist_ok=True)
    cfg = [f"[{section}]"]
    if isinstance(schema, str):
        (jobdir / "schema.graphql").write_text(schema)
        cfg.append('schema_path = "schema.graphql"')
    elif isinstance(schema, dict):
        for rel, txt in schema.items():
            p = jobdir / "schema" / rel
            p.parent.mkdir(parents=True, exist_ok=True)
            p.write_text(txt)
        cfg.append('schema_path = "schema"')
    if remote_schema_url:
        cfg.append(f'remote_schema_url = {json.dumps(remote_schema_url)}')
    if isinstance(queries, str):
        (jobdir / "queries.graphql").write_text(queries)
        cfg.append('queries_path = "queries.graphql"')
    elif isinstance(queries, dict):
        for rel, txt in queries.items():
            p = jobdir / "queries" / rel
            p.parent.mkdir(parents=True, exist_ok=True)
            p.write_text(txt)
        cfg.append('queries_path = "queries"')
    opts = {"target_package_name": package, "include_comments": "none"}
    opts.update(options or {})
    for k, v in opts.items():
        if v is None:
            continue
        cfg.append(f"{k} = {toml_val(v)}")
    for name, sc in (scalars or {}).items():
        cfg.append(f"\n[{section}.scalars.{name}]")
        for k, v in sc.items():
            cfg.append(f"{k} = {toml_val(v)}")
    for rel, txt in (files or {}).items():
        p = jobdir / rel
        p.parent.mkdir(parents=True, exist_ok=True)
        p.write_text(txt)
    (jobdir / "pyproject.toml").write_text(raw_config if raw_config is not None else "\n".join(cfg) + "\n")
    return jobdir


def generate(jobdir: Path, strategy: str = "client", *, audit: bool = False, hashseed=0, env=None, timeout=600,
             config: str | None = None, probe: bool = False) -> dict:
    args = ["-m", "harness.drive_gen", str(jobdir), strategy]
    if audit:
        args.append("--audit")
    if probe:
        args.append("--probe")
    if config:
        args += ["--config", config]
    p = run_py(args, hashseed=hashseed, env=env, timeout=timeout)
    rp = jobdir / "result.json"
    if not rp.exists():
        raise Machinery(f"generator driver died: rc={p.returncode}\n{p.stderr[-3000:]}")
    res = json.loads(rp.read_text())
    res["stderr"] = p.stderr[-2000:]
    return res


def run_in_pkg(jobdir: Path, script: str, payload, *, hashseed=0, timeout=600, env=None) -> dict:
    """Run harness/<script> in a fresh interpreter with the job dir on sys.path; JSON in (stdin) / JSON out."""
    e = {"VERIF_JOBDIR": str(jobdir)}
    if env:
        e.update(env)
    p = run_py(["-m", script], cwd=jobdir, stdin=json.dumps(payload), hashseed=hashseed, timeout=timeout, env=e)
    out = p.stdout
    k = out.rfind("\n@@RESULT@@")
    if k < 0:
        raise Machinery(f"package driver {script} produced no result: rc={p.returncode}\n{p.stderr[-3000:]}\n{out[-1000:]}")
    return json.loads(out[k + len("\n@@RESULT@@"):])
