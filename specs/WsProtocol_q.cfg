SPECIFICATION Spec
CONSTANTS MaxFrames = 5
  Kinds <- JudgedKinds
  InitPayloads <- OnePayload
  VarModes <- OneVarMode
INVARIANT TypeOK
INVARIANT InitFirst
INVARIANT SilentUntilAck
INVARIANT NoSubscribeWithoutAck
INVARIANT ExactlyOneSubscribe
INVARIANT YieldsAreNextDataInOrder
INVARIANT OnePongPerPing
INVARIANT TerminalMapping
INVARIANT CloseOnlyOnComplete
PROPERTY NoSendAfterEnd
PROPERTY AppendOnly
CHECK_DEADLOCK FALSE
