--------------------------- MODULE HttpOutcome_MC ---------------------------
(* Exhaustive configuration of HttpOutcome + export of every cell with the predicted       *)
(* outcomes, for the spec -> code replay leg.                                              *)
EXTENDS HttpOutcome, Json, IOUtils, SequencesExt

\* quick: the boundaries of every class; thorough (STATUSES = "all"): every status code an HTTP response can carry
StatusSet == IF IOEnv.STATUSES = "all" THEN 100..599 ELSE {100, 199, 200, 201, 204, 299, 300, 301, 400, 401, 404, 500, 503}

Cases == LET rs == SetToSeq(Responses) IN
  [i \in 1..Len(rs) |-> [status |-> rs[i].status, body |-> rs[i].body,
                          predicted |-> Documented(rs[i]), method |-> MethodOutcome(rs[i])]]

ASSUME IOEnv.OUT_FILE = "" \/ JsonSerialize(IOEnv.OUT_FILE, Cases)
=============================================================================
