"""In-package driver for the Telemetry / TelemetryHttp specifications (beyond the listed properties): run the real
OpenTelemetry base client with a RECORDING tracer and log the span structure."""
import asyncio
import contextlib
import io
import json
import sys

import httpx
from opentelemetry import trace as ot

from .util import load_payload, emit, import_pkg, exc_kind
from . import c13


class RecSpan(ot.NonRecordingSpan):
    def __init__(self, name, tracer, parent):
        super().__init__(ot.INVALID_SPAN_CONTEXT)
        self.name, self.tracer, self.parent, self.keys = name, tracer, parent, []

    def set_attribute(self, key, value):
        self.keys.append(key)

    def set_attributes(self, attributes):
        self.keys.extend(attributes)


class RecTracer:
    """start_as_current_span as a plain context manager; declared parent = the span found in `context`"""

    def __init__(self):
        self.events, self.stack = [], []

    @contextlib.contextmanager
    def start_as_current_span(self, name, context=None, **kw):
        declared = ot.get_current_span(context) if context is not None else None
        if declared is ot.INVALID_SPAN:
            declared = None
        span = RecSpan(name, self, declared)
        opened_under = list(self.stack)
        self.stack.append(span)
        self.events.append({"e": "open", "kind": name, "root": declared is None,
                            "parent_is_root": bool(opened_under) and declared is opened_under[0] and len(opened_under) == 1})
        exc = None
        try:
            yield span
        except BaseException as ex:  # noqa
            exc = ex
            raise
        finally:
            top = self.stack.pop()
            self.events.append({"e": "close", "kind": name, "root": declared is None, "keys": sorted(set(span.keys)),
                                "exc": exc is not None, "exc_kind": exc_kind(exc) if isinstance(exc, Exception) else ("-" if exc is None else type(exc).__name__),
                                "lifo": top is span, "nested": len(opened_under) == 1 and declared is opened_under[0]})


def ws_trace(log, tracer):
    case = log[0]
    tr = [{"e": "case", "inbox": case["inbox"], "payload": case["payload"], "vars": case["vars"]}]
    root_state = "none"
    for ev in tracer.events:
        if ev["e"] != "close":
            continue
        if ev["root"]:
            root_state = "closed_exc" if ev["exc"] else "closed"
        else:
            tr.append({"e": "span", "kind": ev["kind"], "keys": ev["keys"], "exc": ev["exc_kind"] if ev["exc"] else "-",
                       "nested": bool(ev["nested"] and ev["lifo"])})
    end = [e for e in log if e["e"] == "end"]
    tr.append({"e": "root", "state": root_state})
    return {"trace": tr, "result": end[0]["result"] if end else "?", "open_left": len(tracer.stack)}


def http_case(pkg, bm, is_async, body, transport, loop):
    tracer = RecTracer()

    def handler(request):
        tracer.events.append({"e": "post", "open": len(tracer.stack)})
        if transport == "transport_error":
            raise httpx.ConnectError("scripted")
        return httpx.Response(500 if transport == "response_500" else 200, json={"data": {"f": 1}})
    hc = (httpx.AsyncClient if is_async else httpx.Client)(transport=httpx.MockTransport(handler))
    client = pkg.Client(url="http://x/graphql", http_client=hc, tracer=tracer)
    variables = {"a": 1}
    if body == "multipart":
        variables["u"] = {"k1": bm.Upload(filename="f.txt", content=io.BytesIO(b"x"), content_type="text/plain")}
    outcome = "running"
    try:
        r = client.execute(query="query Op { f }", operation_name="Op", variables=variables)
        if is_async:
            r = loop.run_until_complete(r)
        outcome = "response" if isinstance(r, httpx.Response) else "other"
    except httpx.ConnectError:
        outcome = "raised"
    except Exception as ex:  # noqa
        outcome = "other:" + type(ex).__name__
    tr = [{"e": "case", "body": body, "transport": "response" if transport.startswith("response") else transport}]
    for ev in tracer.events:
        if ev["e"] == "open":
            tr.append({"e": "open", "kind": ev["kind"], "root": ev["root"], "parent_is_root": ev["parent_is_root"]})
        elif ev["e"] == "post":
            tr.append(ev)
        else:
            tr.append({"e": "close", "kind": ev["kind"], "root": ev["root"], "keys": ev["keys"], "exc": ev["exc"]})
    tr.append({"e": "ret", "outcome": outcome})
    return {"trace": tr, "open_left": len(tracer.stack)}


def main():
    P = load_payload()
    pkg = import_pkg(P["package"])
    bm = import_pkg(P["package"] + ".base_model")
    is_async = P["async"]
    out = {"ws": [], "http": []}
    loop = asyncio.new_event_loop() if is_async else None
    for body, transport in P["http_cases"]:
        out["http"].append(http_case(pkg, bm, is_async, body, transport, loop))
    if is_async and P.get("ws_cases"):
        basecls = pkg.Client.__mro__[1]
        basemod = sys.modules[basecls.__module__]
        shared_http = httpx.AsyncClient()
        client_kw = {"ws_url": c13.URL, "ws_headers": dict(c13.WS_HEADERS), "ws_origin": c13.ORIGIN, "http_client": shared_http}

        async def go():
            for case in P["ws_cases"]:
                tracer = RecTracer()
                log = await c13.run_case(pkg, basemod, case, client_kw, tracer)
                out["ws"].append(ws_trace(log, tracer))
        loop.run_until_complete(go())
    emit(out)


if __name__ == "__main__":
    main()
