"""Shared plumbing: work dirs, TLC runner, evidence writer, known-findings matcher, verdicts.

Exit codes of a check: 0 held / only known findings; 1 VIOLATION; 2 machinery failure.
"""
from __future__ import annotations

import hashlib
import json
import os
import re
import shutil
import subprocess
import sys
import tempfile
import time
from concurrent.futures import ThreadPoolExecutor
from pathlib import Path

VERIF = Path(__file__).resolve().parent.parent
REPO = Path(os.environ.get("VERIF_REPO", "/repo"))
SPECS = VERIF / "specs"
EVIDENCE = Path(os.environ.get("VERIF_EVIDENCE") or (VERIF / "evidence"))
PY = "/venv/bin/python"
TLA_JAR = "/opt/veriftools/tla/tla2tools.jar"
GUARD = "ARIADNE_CODEGEN_VERIF"
NCPU = os.cpu_count() or 4


class Machinery(Exception):
    """Something in the verification machinery itself failed (exit 2)."""


def seed() -> int:
    try:
        return int(os.environ.get("VERIF_SEED", "0"))
    except ValueError:
        return 0


class Work:
    """A private scratch directory per check invocation, removed on exit."""

    def __init__(self, tag: str):
        base = os.environ.get("VERIF_TMP") or tempfile.gettempdir()
        self.dir = Path(tempfile.mkdtemp(prefix=f"verif_{tag}_", dir=base))

    def sub(self, name: str) -> Path:
        p = self.dir / name
        p.mkdir(parents=True, exist_ok=True)
        return p

    def cleanup(self):
        if os.environ.get("VERIF_KEEP"):
            print(f"[keep] {self.dir}", file=sys.stderr)
            return
        shutil.rmtree(self.dir, ignore_errors=True)


# --------------------------------------------------------------------------- TLC

_CLASSPATH = None


def _classpath() -> str:
    global _CLASSPATH
    if _CLASSPATH is None:
        cp = [TLA_JAR]
        d = Path("/opt/veriftools/tla")
        for j in sorted(d.glob("*.jar")):
            if str(j) != TLA_JAR:
                cp.append(str(j))
        _CLASSPATH = ":".join(cp)
    return _CLASSPATH


class TlcResult:
    def __init__(self, rc, out, wall):
        self.rc = rc
        self.out = out
        self.wall = wall
        m = re.findall(r"(\d+) states generated, (\d+) distinct states found, (\d+) states left", out)
        self.generated = int(m[-1][0]) if m else 0
        self.distinct = int(m[-1][1]) if m else 0
        self.left = int(m[-1][2]) if m else 0
        self.invariant_violated = re.findall(r"Invariant (\S+) is violated", out)
        self.property_violated = re.findall(r"(?:Action|Temporal) propert(?:y|ies) (\S*) ?(?:is|were) violated", out)
        self.assume_failed = "Assumption" in out and "is false" in out
        self.post_failed = "Post-condition" in out or "POSTCONDITION" in out and "violated" in out
        self.deadlock = "Deadlock reached" in out
        self.error = ("Error:" in out) or rc not in (0,)
        self.ok = (rc == 0 and not self.invariant_violated and not self.property_violated
                   and not self.deadlock and "Error:" not in out)
        # per-action coverage lines: <Action line .. of module M>: distinct:generated
        self.coverage = {}
        for mm in re.finditer(r"<(\w+) line \d+, col \d+ to line \d+, col \d+ of module (\w+)(?: \((\d+) [\d ]+\))?>: (\d+):(\d+)", out):
            key = f"{mm.group(2)}!{mm.group(1)}" + (f"@{mm.group(3)}" if mm.group(3) else "")
            self.coverage[key] = (int(mm.group(4)), int(mm.group(5)))

    def printed(self):
        """Values printed with PrintT, one per line, returned raw."""
        return [l for l in self.out.splitlines() if l.startswith('"') or l.startswith("<<") or l.startswith("[")]


def run_tlc(module: str, cfg: str | Path, work: Path, *, workers: int | str = "auto", env: dict | None = None,
            extra: list[str] | None = None, timeout: int = 3600, spec_dir: Path | None = None,
            coverage: bool = False, deadlock: bool = True, simulate: str | None = None,
            depth: int | None = None, dfs: bool = False) -> TlcResult:
    """Run TLC on specs/<module>.tla with the given cfg (path, or literal text written to the work dir)."""
    spec_dir = spec_dir or SPECS
    work.mkdir(parents=True, exist_ok=True)
    if isinstance(cfg, Path) or (isinstance(cfg, str) and "\n" not in cfg and cfg.endswith(".cfg")):
        cfg_path = Path(cfg)
        if not cfg_path.is_absolute():
            cfg_path = spec_dir / cfg_path
    else:
        cfg_path = work / f"{module}_{hashlib.sha1(cfg.encode()).hexdigest()[:8]}.cfg"
        cfg_path.write_text(cfg)
    meta = work / f"meta_{module}_{time.time_ns()}"
    # trace validation (workers == 1, small state spaces, many JVMs side by side) gets a small heap; model checking a big one.
    # A global semaphore file is not used: the number of concurrent JVMs is bounded by the callers (pmap / chunks).
    heap = os.environ.get("VERIF_TLC_HEAP") or ("1500m" if (workers == 1 and not simulate) else "6g")
    # TLC unpacks the standard modules into java.io.tmpdir/tlc-<n> and leaves them there: keep that inside the work dir
    jtmp = work / "jtmp"
    jtmp.mkdir(parents=True, exist_ok=True)
    cmd = ["java", "-XX:+UseSerialGC" if workers == 1 else "-XX:+UseParallelGC", f"-Xmx{heap}", f"-Djava.io.tmpdir={jtmp}"]
    if dfs:
        cmd.append("-Dtlc2.tool.queue.IStateQueue=StateDeque")
    cmd += ["-cp", _classpath(), "tlc2.TLC", "-config", str(cfg_path), "-metadir", str(meta),
            "-noGenerateSpecTE", "-workers", str(workers)]
    if not deadlock:
        cmd.append("-deadlock")
    if coverage:
        cmd += ["-coverage", "1"]
    if simulate:
        cmd += ["-simulate", simulate]
    if depth:
        cmd += ["-depth", str(depth)]
    if extra:
        cmd += extra
    cmd.append(str(spec_dir / f"{module}.tla"))
    e = dict(os.environ)
    e.pop("JAVA_TOOL_OPTIONS", None)
    if env:
        e.update({k: str(v) for k, v in env.items()})
    t0 = time.time()
    try:
        for attempt in range(3):
            with _JvmSlots(1 if heap.endswith("m") else 4):
                p = subprocess.run(cmd, cwd=str(spec_dir), env=e, capture_output=True, text=True, timeout=timeout)
            if p.returncode not in (-9, 137):
                break
            # killed from outside (the kernel's OOM killer when other jobs share the machine): wait and try again
            shutil.rmtree(meta, ignore_errors=True)
            time.sleep(45 * (attempt + 1))
    except subprocess.TimeoutExpired as ex:
        raise Machinery(f"TLC timed out after {timeout}s on {module}") from ex
    finally:
        shutil.rmtree(meta, ignore_errors=True)
    return TlcResult(p.returncode, p.stdout + p.stderr, time.time() - t0)


class _JvmSlots:
    """Machine-wide memory budget for JVMs (checks may run side by side): 36 slots of ~1.5 GB, taken with flock on files
    under the temp dir (released by the kernel if the holder dies).  A validator JVM takes 1 slot, a model-checking JVM 4."""
    TOTAL = int(os.environ.get("VERIF_JVM_SLOTS", "36"))

    def __init__(self, k: int):
        self.k, self.held = max(1, min(k, self.TOTAL)), []

    def __enter__(self):
        import fcntl
        d = Path(tempfile.gettempdir()) / "verif_jvm_slots"
        d.mkdir(exist_ok=True)
        t0 = time.time()
        while True:
            for i in range(self.TOTAL):
                if len(self.held) >= self.k:
                    break
                fd = os.open(d / f"slot_{i}", os.O_CREAT | os.O_RDWR, 0o666)
                try:
                    fcntl.flock(fd, fcntl.LOCK_EX | fcntl.LOCK_NB)
                    self.held.append(fd)
                except OSError:
                    os.close(fd)
            if len(self.held) >= self.k or time.time() - t0 > 1800:
                return self                       # (after 30 min of waiting go ahead anyway: never deadlock a check)
            for fd in self.held:                  # all-or-nothing: do not sit on a partial allocation
                os.close(fd)
            self.held = []
            time.sleep(1.0 + (os.getpid() % 7) / 5)

    def __exit__(self, *a):
        for fd in self.held:
            os.close(fd)
        self.held = []
        return False


def tlc_must_pass(res: TlcResult, what: str):
    if not res.ok:
        tail = "\n".join(res.out.splitlines()[-60:])
        raise Machinery(f"TLC failed on {what} (rc={res.rc}):\n{tail}")


# --------------------------------------------------------------------------- subprocess pool

def run_py(args: list[str], *, cwd: str | Path | None = None, env: dict | None = None, timeout: int = 600,
           hashseed: int | str = 0, stdin: str | None = None):
    e = dict(os.environ)
    e["PYTHONPATH"] = f"{REPO}:{VERIF}"
    e["PYTHONHASHSEED"] = str(hashseed)
    e[GUARD] = "1"
    e["PYTHONDONTWRITEBYTECODE"] = "1"
    if env:
        e.update({k: str(v) for k, v in env.items()})
    return subprocess.run([PY] + args, cwd=str(cwd) if cwd else None, env=e, capture_output=True, text=True,
                          timeout=timeout, input=stdin)


def pmap(fn, items, workers: int | None = None):
    items = list(items)
    if not items:
        return []
    with ThreadPoolExecutor(max_workers=workers or NCPU) as ex:
        return list(ex.map(fn, items))


# --------------------------------------------------------------------------- known findings

def load_findings(pid: str):
    p = VERIF / "KNOWN_FINDINGS.json"
    if not p.exists():
        return []
    data = json.loads(p.read_text())
    return [f for f in data.get("findings", []) if pid in f.get("properties", [f.get("property")])]


_CASES = {}
COLLECTED = {}


def case_key(features: dict, signature: str):
    """Identity of one failing input of the enumerated operation universe: operation, naming mode, what fails."""
    if not features.get("op_id"):
        return None
    return (f"{features['op_id']}|{'nosnake' if 'nosnake' in str(features.get('variant', '')) else 'snake'}|{signature}"
            + (f"|{features['pair']}" if features.get("pair") else "")).replace(" ", "")


def _cases_of(f):
    name = f.get("cases_file")
    if not name:
        return None
    if name not in _CASES:
        p = VERIF / name
        _CASES[name] = set(p.read_text().split()) if p.exists() else None     # no list (yet): features + signature only
    return _CASES[name]


def match_finding(findings, features: dict, signature: str):
    """A violation is known only if an OPEN finding matches every listed feature AND the signature regex AND -- for
    findings over the enumerated operation universe (cases_file) -- this very (operation, naming mode, signature) is
    listed as failing on the unchanged tree.  VERIF_COLLECT=<ids> (maintenance only) records the keys instead."""
    for f in findings:
        if f.get("status") != "open":
            continue
        if not all(_feat_eq(features.get(k), v) for k, v in f.get("match", {}).items()):
            continue
        if not re.search(f.get("signature", "^$"), signature):
            continue
        cases = _cases_of(f)
        key = case_key(features, signature)
        if cases is not None and key is not None:
            if f["id"] in (os.environ.get("VERIF_COLLECT") or "").split(","):
                COLLECTED.setdefault(f["id"], set()).add(key)
            elif key not in cases:
                continue
        return f
    return None


def flush_collected():
    d = os.environ.get("VERIF_COLLECT_DIR")
    if not d or not COLLECTED:
        return
    Path(d).mkdir(parents=True, exist_ok=True)
    for fid, keys in COLLECTED.items():
        p = Path(d) / f"{fid}.cases"
        old = set(p.read_text().split()) if p.exists() else set()
        p.write_text("\n".join(sorted(old | keys)) + "\n")


def _feat_eq(have, want):
    if isinstance(want, list):
        return any(_feat_eq(have, w) for w in want)
    if isinstance(want, str) and want.endswith("*") and isinstance(have, str):
        return have.startswith(want[:-1])
    return have == want


# --------------------------------------------------------------------------- verdict / evidence

class Verdict:
    """Collects violations, known-finding hits, drift notes and coverage for one check run."""

    def __init__(self, pid: str, tier: str, level: str = "model_checking"):
        self.pid = pid
        self.tier = tier
        self.level = level
        self.t0 = time.time()
        self.findings = load_findings(pid)
        self.violations = []          # (features, signature, detail)
        self.known_hits = {}          # finding id -> count
        self.drift = []
        self.cov = {"states": 0, "transitions": 0, "traces_validated_against_impl": 0, "evaluations": 0,
                    "distinct_nontrivial": 0, "samples": [], "tlc_runs": []}
        self.assumptions = []
        self.observations = []

    def add_tlc(self, res: TlcResult, name: str):
        self.cov["states"] += res.distinct
        self.cov["transitions"] += res.generated
        self.cov["tlc_runs"].append({"name": name, "distinct": res.distinct, "generated": res.generated,
                                     "wall_s": round(res.wall, 2)})

    def sample(self, s, cap: int = 6):
        if len(self.cov["samples"]) < cap:
            self.cov["samples"].append(s)

    def violation(self, features: dict, signature: str, detail):
        f = match_finding(self.findings, features, signature)
        if f:
            self.known_hits[f["id"]] = self.known_hits.get(f["id"], 0) + 1
            if os.environ.get("VERIF_DEBUG"):
                key = (f["id"], signature, json.dumps({k: v for k, v in features.items() if v not in (False, None) and k not in ("variant", "case", "tree")}, sort_keys=True, default=str))
                self.known_detail = getattr(self, "known_detail", {})
                self.known_detail[key] = self.known_detail.get(key, 0) + 1
            return False
        self.violations.append({"features": features, "signature": signature, "detail": detail})
        return True

    def note_drift(self, msg):
        if len(self.drift) < 50:
            self.drift.append(msg)

    def finish(self, **extra_cov) -> int:
        self.cov.update(extra_cov)
        flush_collected()
        by_id = {f["id"]: f for f in self.findings}
        for fid, n in sorted(self.known_hits.items()):
            print(f"KNOWN-FINDING: property={self.pid} {fid}: {by_id[fid]['summary']} ({n} cases)")
        for key, n in sorted(getattr(self, "known_detail", {}).items()):
            print(f"  [known] {n} x {key[0]} {key[1]} {key[2]}", file=sys.stderr)
        for f in self.findings:
            if f.get("status") == "open" and f["id"] not in self.known_hits and f.get("expect_hit", {}).get(self.tier, True):
                print(f"note: open finding {f['id']} was not reproduced by this {self.tier} run", file=sys.stderr)
        for d in self.drift[:10]:
            print(f"SPEC-DRIFT: {d}", file=sys.stderr)
        replay = None
        if self.violations:
            rdir = EVIDENCE / "replays" / self.pid
            rdir.mkdir(parents=True, exist_ok=True)
            blob = json.dumps(self.violations[:50], indent=1, sort_keys=True, default=str)
            replay = rdir / (hashlib.sha1(blob.encode()).hexdigest()[:12] + ".json")
            replay.write_text(blob)
            for v in self.violations[:5]:
                print(f"  violation: {v['signature']} features={json.dumps(v['features'], sort_keys=True)}")
            print(f"VIOLATION property={self.pid} replay={replay}")
        from collections import Counter
        summ = Counter()
        for x in self.violations:
            fs = x["features"]
            small = {k: fs[k] for k in fs if isinstance(fs[k], (str, int, bool)) and fs[k] not in (False, None, "")}
            summ[x["signature"] + " " + json.dumps(small, sort_keys=True)] += 1
        self.cov["violation_summary"] = [f"{n} x {k}" for k, n in summ.most_common(40)]
        if os.environ.get("VERIF_DEBUG") and self.violations:
            for k, n in summ.most_common(60):
                print(f"  [summary] {n} x {k}", file=sys.stderr)
        ev = {
            "property_id": self.pid,
            "tier": self.tier,
            "seed": seed(),
            "level": self.level,
            "coverage": self.cov,
            "assumptions": self.assumptions,
            "wall_s": round(time.time() - self.t0, 2),
            "violations": len(self.violations),
            "known_findings_hit": self.known_hits,
            "spec_drift": self.drift,
            "observations": self.observations[:40],
        }
        edir = EVIDENCE / "extra" if self.pid.startswith("X") else EVIDENCE       # X..: checks beyond the listed properties
        edir.mkdir(exist_ok=True, parents=True)
        (edir / f"{self.pid}.json").write_text(json.dumps(ev, indent=1, default=str) + "\n")
        return 1 if self.violations else 0


def jdump(x) -> str:
    return json.dumps(x, sort_keys=True, default=str)


# --------------------------------------------------------------------------- trace validation

def _no_null(x):
    """TLC's Json module cannot read null: drop None-valued members, turn None items into "null"."""
    if isinstance(x, dict):
        return {k: _no_null(v) for k, v in x.items() if v is not None}
    if isinstance(x, (list, tuple)):
        return ["null" if v is None else _no_null(v) for v in x]
    return x


def validate_traces(module: str, cfg: str | Path, traces: list, work: Path, *, name: str = "traces",
                    env: dict | None = None, timeout: int = 3600, dfs: bool = False):
    """Batch trace validation: `traces` is a list of event lists.  Returns (TlcResult, rejected, inv_violations)
    rejected: {trace index (0-based): last matched position}; inv_violations: [(invariant, trace index or None)].
    """
    work.mkdir(parents=True, exist_ok=True)
    tf = work / f"{name}_{time.time_ns()}.json"
    tf.write_text(json.dumps(_no_null(traces)))
    if os.environ.get("VERIF_SAVE_TRACES"):
        sd = Path(os.environ["VERIF_SAVE_TRACES"])
        sd.mkdir(parents=True, exist_ok=True)
        tmpf = sd / f".{module}.{time.time_ns()}.tmp"          # chunks are validated concurrently: replace atomically
        tmpf.write_text(json.dumps(_no_null(traces[:400])))
        os.replace(tmpf, sd / f"{module}.json")
        for k_, v_ in (env or {}).items():          # side files the trace spec reads (deviation lists, keyword lists)
            if v_ and os.path.isfile(str(v_)):
                (sd / f"{module}.{k_}.json").write_text(Path(v_).read_text())
    e = {"TRACE_FILE": str(tf)}
    if env:
        e.update(env)
    res = run_tlc(module, cfg, work, workers=1, env=e, extra=["-continue"], timeout=timeout, deadlock=True, dfs=dfs)
    rejected = {}
    for m in re.finditer(r'<<"REJECTED", (\d+), (\d+)>>', res.out):
        rejected[int(m.group(1)) - 1] = int(m.group(2))
    inv = []
    # with -continue TLC prints each violated invariant followed by the error trace (states list tid = N)
    chunks = re.split(r"Error: (?=Invariant|Action property|Temporal)", res.out)
    for ch in chunks[1:]:
        m = re.match(r"(?:Invariant|Action property|Temporal properties?) (\S+)", ch)
        t = re.findall(r"/\\ tid = (\d+)", ch)
        inv.append((m.group(1) if m else "?", int(t[-1]) - 1 if t else None))
    fatal = None
    if "Error:" in res.out:
        for line in res.out.splitlines():
            if line.startswith("Error:") and not re.match(r"Error: (Invariant|Action property|Temporal|The behavior up to|Post-condition|The postcondition|POSTCONDITION)", line):
                fatal = line
                break
    if fatal and not rejected and not inv:
        tail = "\n".join(res.out.splitlines()[-50:])
        raise Machinery(f"TLC failed on trace validation {module}: {fatal}\n{tail}")
    try:
        tf.unlink()
    except OSError:
        pass
    return res, rejected, inv


# --------------------------------------------------------------------------- TLA value parsing

def tla_to_py(text: str):
    """Parse a printed TLA+ value made of tuples/sequences, sets, strings, ints, booleans and records."""
    pos = 0
    n = len(text)

    def ws():
        nonlocal pos
        while pos < n and text[pos] in " \t\r\n":
            pos += 1

    def val():
        nonlocal pos
        ws()
        if text.startswith("<<", pos):
            pos += 2
            items = []
            ws()
            if text.startswith(">>", pos):
                pos += 2
                return items
            while True:
                items.append(val())
                ws()
                if text.startswith(">>", pos):
                    pos += 2
                    return items
                assert text[pos] == ",", (text[pos:pos + 20])
                pos += 1
        if text[pos] == "{":
            pos += 1
            items = []
            ws()
            if text[pos] == "}":
                pos += 1
                return items
            while True:
                items.append(val())
                ws()
                if text[pos] == "}":
                    pos += 1
                    return items
                pos += 1
        if text[pos] == "[":
            pos += 1
            rec = {}
            while True:
                ws()
                m = re.match(r"(\w+)\s*\|->", text[pos:])
                pos += m.end()
                rec[m.group(1)] = val()
                ws()
                if text[pos] == "]":
                    pos += 1
                    return rec
                pos += 1
        if text[pos] == '"':
            j = pos + 1
            out = []
            while text[j] != '"':
                if text[j] == "\\":
                    j += 1
                out.append(text[j])
                j += 1
            pos = j + 1
            return "".join(out)
        m = re.match(r"-?\d+", text[pos:])
        if m:
            pos += m.end()
            return int(m.group())
        if text.startswith("TRUE", pos):
            pos += 4
            return True
        if text.startswith("FALSE", pos):
            pos += 5
            return False
        raise ValueError(f"cannot parse TLA value at {text[pos:pos + 30]!r}")

    return val()


def printed_tuples(out: str, tag: str):
    """All PrintT'ed tuples <<"tag", ...>> in TLC output (single-line each; robust to interleaving by bracket matching)."""
    res = []
    pat = re.compile(r'<<\s*"' + re.escape(tag) + r'"\s*,')
    m0 = pat.search(out)
    i = m0.start() if m0 else -1
    while i >= 0:
        depth = 0
        j = i
        while j < len(out):
            if out.startswith("<<", j):
                depth += 1
                j += 2
                continue
            if out.startswith(">>", j):
                depth -= 1
                j += 2
                if depth == 0:
                    break
                continue
            j += 1
        try:
            res.append(tla_to_py(out[i:j]))
        except Exception:
            pass
        m0 = pat.search(out, j)
        i = m0.start() if m0 else -1
    return res


def validate_traces_parallel(module, cfg, traces, work: Path, *, chunks: int | None = None, chunk_size: int = 4000,
                             env=None, timeout=3600, dfs=False):
    """validate_traces over chunks in parallel TLC processes.  Returns (list of TlcResult, rejected, inv)."""
    if not traces:
        return [], {}, []
    k = chunks or max(1, min(NCPU, (len(traces) + chunk_size - 1) // chunk_size))
    size = (len(traces) + k - 1) // k
    parts = [(i, traces[i:i + size]) for i in range(0, len(traces), size)]

    def one(p):
        off, trs = p
        r, rej, inv = validate_traces(module, cfg, trs, work / f"tv{off}", env=env, timeout=timeout, dfs=dfs)
        return r, {off + a: b for a, b in rej.items()}, [(n, (off + t) if t is not None else None) for n, t in inv]

    outs = pmap(one, parts, workers=min(NCPU, len(parts)))
    rs, rej, inv = [], {}, []
    for r, a, b in outs:
        rs.append(r)
        rej.update(a)
        inv.extend(b)
    return rs, rej, inv
