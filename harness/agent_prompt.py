"""Print the prompt given to an independent sub-agent that seeds a property-breaking change (no /verif content)."""
import json
import sys

pid, wt = sys.argv[1], sys.argv[2]
hint = sys.argv[3] if len(sys.argv) > 3 else ""
p = [json.loads(l) for l in open("/verif/properties.jsonl") if l.strip()]
p = [x for x in p if x["id"] == pid][0]
print(f"""You are working on the open-source Python project mirumee/ariadne-codegen (a code generator that turns a GraphQL schema and operations into a typed Python client package). You have your own scratch git worktree of it at {wt} . Work ONLY inside {wt} and {wt}-out ; never touch /repo or /verif (do not read /verif at all), and do not commit anything.

Environment: Python is /venv/bin/python (all dependencies installed; no network). IMPORTANT: the package is installed in editable mode pointing at another checkout, so ALWAYS run things as `cd {wt} && PYTHONPATH={wt} /venv/bin/python ...` and verify once that `import ariadne_codegen; print(ariadne_codegen.__file__)` points into {wt}. Run the test suite with: `cd {wt} && PYTHONPATH={wt} /venv/bin/python -m pytest -q -p no:cacheprovider --timeout=900 --continue-on-collection-errors -x -q` is NOT suitable because about 26 tests already fail and 6 error on the UNCHANGED tree (tool-version drift) -- instead run without -x, save the list of passing test ids before your change (`-rA` or `--junitxml`), and check that exactly the same tests pass after it. With click 8.5 the CLI must be invoked with an explicit strategy: `ariadne-codegen client` / `CliRunner().invoke(main, ["client"])`. Generate each package in a fresh Python process.

Here is a semantic property the project is supposed to satisfy:

TITLE: {p['title']}
STATEMENT: {p['statement']}
QUANTIFIED OVER: {p['quantifier']['text']}
RELEVANT FILES: {', '.join(p['anchors']['files'])}

Your task: write a REALISTIC change to the project's source (under ariadne_codegen/, not the tests) that BREAKS this property while the code still compiles/imports and the existing test suite passes exactly as before (same set of passing tests). It should look like something a maintainer could plausibly merge by mistake: a refactor, an 'optimisation', a well-meant bug fix, a clean-up, or two cooperating edits at different sites that each look fine alone. It must NOT be something ordinary use would expose at once: it should need something specific to manifest -- a particular input shape, a multi-step sequence of operations, a particular interleaving or ordering, a fault at a particular point, an unusual but valid input, or a specific configuration combination. Keep the diff small (typically 1-15 lines). {hint}

Deliver, in the directory {wt}-out/ (create it):
  1. patch.diff  -- `git -C {wt} diff` of your change (source only).
  2. demo.py (or demo_test.py) -- a self-contained demonstration program that exits 0 on the UNCHANGED tree and exits non-zero (with a clear message) when your change is applied. It must locate the tree to test from the environment variable TREE (default {wt}) and put it first on sys.path / PYTHONPATH for any subprocess it spawns, must work offline, and must create temp files only under a tempfile.mkdtemp() that it removes.
  3. notes.md -- which part of the property it breaks, what exactly is needed for the breakage to manifest, and the evidence that the existing suite still passes identically (counts before/after).
Verify all of this yourself: run demo.py with the change applied (must fail) and with it reverted via `git -C {wt} apply -R {wt}-out/patch.diff` (must pass), then re-apply it with `git -C {wt} apply {wt}-out/patch.diff` so the worktree ends WITH your change applied. NEVER use `git stash` (the stash is shared between all worktrees of this repository and other people are working in sibling worktrees). Finish with a short report: the diff, what it needs to manifest, and the test counts.""")
