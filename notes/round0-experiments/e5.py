from gen import *
schema = '''
enum Color { RED }
type T { i: Int! f: Float! s: String! b: Boolean! id: ID! c: Color! l: [Int!]! o: T }
type Query { t: T! }
'''
d, n, r = generate(schema, 'query A { t { i f s b id c l o { i } } }'); show(r)
m = load(d, n)
good = {"t": {"i": 1, "f": 1.5, "s": "x", "b": True, "id": "1", "c": "RED", "l": [1], "o": None}}
print("good:", m.A.model_validate(good))
import copy
for path, val in [(("i",), "5"), (("i",), 1.0), (("i",), 1.5), (("i",), True), (("f",), "1.5"), (("f",), 1), (("s",), 5), (("b",), 1), (("b",), "true"), (("id",), 5), (("c",), "BLUE"), (("l",), 1), (("l",), ["1"]), (("o",), []), (("o",), 5), (("i",), None), (("l",), [None])]:
    bad = copy.deepcopy(good); bad["t"][path[0]] = val
    try: m.A.model_validate(bad); print(path, repr(val), "ACCEPTED")
    except Exception as e: print(path, repr(val), "rejected")
