SPECIFICATION TraceSpec
CONSTANTS Inputs <- TInputs
 Uses <- TUses
 Points <- TPoints
 Seeds <- TSeeds
 FileOrders <- TOrders
 Targets <- TTargets
 MaxRuns = 64
INVARIANT Deterministic
CONSTRAINT Reached
POSTCONDITION Accepted
CHECK_DEADLOCK FALSE
