---------------------------- MODULE Variables_Trace ----------------------------
(* Trace validation for Variables: one real call of a generated method per trace, logged as                             *)
(*    case(w, kind, pos, state)    observed(present, wire, serlog, delivered)                                             *)
(* (wire / delivered abstracted back to the spec's vocabulary).  The pipeline stages are silent steps.                   *)
EXTENDS Variables, Json, IOUtils

Traces == JsonDeserialize(IOEnv.TRACE_FILE)
N == Len(Traces)
ASSUME \A t \in 1..N : TLCSet(t, 0)
TW == {"T", "T!", "[T]", "[T]!", "[T!]", "[T!]!", "[[T!]]"}
TK == {"int", "enum", "ser", "native", "raw", "input"}
TP == {"var", "field", "nested", "recursive", "sub_var", "sub_field", "result", "result_nested", "result_fragment", "result_union"}
TS == {"omitted", "none", "val", "val_nullitem", "empty", "val_falsy", "val_nullfirst"}
AsBuiltDev == {"toplevel_serialize_whole"}

VARIABLES tid, l
tvars == <<vars, tid, l>>
Ev == Traces[tid][l]

TraceInit ==
  /\ tid \in 1..N /\ l = 2
  /\ c = [w |-> Traces[tid][1].w, kind |-> Traces[tid][1].kind, pos |-> Traces[tid][1].pos, state |-> Traces[tid][1].state,
          dflt |-> Traces[tid][1].dflt]
  /\ stage = "call" /\ present = TRUE /\ wire = <<"null">> /\ serLog = <<>> /\ delivered = <<"pending">>
T_Silent == Next /\ l' = l /\ tid' = tid
T_Observed ==
  /\ l <= Len(Traces[tid]) /\ Ev.e = "observed" /\ l' = l + 1 /\ tid' = tid
  /\ Done
  /\ Ev.present = present /\ Ev.serlog = serLog
  /\ (present => Ev.wire = wire) /\ Ev.delivered = delivered
  /\ UNCHANGED vars
TraceNext == T_Silent \/ T_Observed
TraceSpec == TraceInit /\ [][TraceNext]_tvars

Reached == TLCSet(tid, IF l > TLCGet(tid) THEN l ELSE TLCGet(tid))
Accepted ==
  LET bad == {t \in 1..N : TLCGet(t) # Len(Traces[t]) + 1} IN
  /\ \A t \in bad : PrintT(<<"REJECTED", t, TLCGet(t)>>)
  /\ bad = {}
=============================================================================
