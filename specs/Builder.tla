------------------------------- MODULE Builder -------------------------------
(* C14 -- the custom operation builder (base_operation.GraphQLField, the generated           *)
(* custom_fields / custom_queries classes and the client's execute_custom_operation).         *)
(* State: a heap in which the class-level field attributes (ItemFields.id ...) are SHARED     *)
(* objects that survive from one operation to the next, while method calls return fresh       *)
(* objects.  A user builds an operation node by node (AddNode) and sends it (Build).          *)
(* The tree is kept in the order GraphQLField.to_ast walks it: preorder, plain sub-fields of  *)
(* a node before its inline fragments.                                                        *)
EXTENDS Naturals, Sequences, FiniteSets, TLC

CONSTANTS MaxNodes,            \* nodes per operation
          MaxOps,              \* operations per history
          Aliases,             \* alias names that may be used (besides "-" = none)
          AliasCopies          \* TRUE: alias() on a shared attribute returns a copy (intended design)
                               \* FALSE: it mutates the shared object (as built) -- deviation "alias_leak"

\* ---- the schema universe (GraphQL names; camelCase on purpose) ---------------------------
A(n, t, r) == [n |-> n, t |-> t, req |-> r]
FT ==
  ( "Query.item"       :> [parent |-> "Query",  name |-> "item",        res |-> "Item",   shared |-> FALSE, args |-> << A("id", "ID!", TRUE) >>]
 @@ "Query.items"      :> [parent |-> "Query",  name |-> "items",       res |-> "Item",   shared |-> FALSE, args |-> << A("ids", "[ID!]!", TRUE), A("colors", "[Color]", FALSE), A("filter", "Filter", FALSE) >>]
 @@ "Query.search"     :> [parent |-> "Query",  name |-> "search",      res |-> "SearchResult", shared |-> FALSE, args |-> << A("text", "String!", TRUE), A("maxHits", "Int", FALSE) >>]
 @@ "Query.node"       :> [parent |-> "Query",  name |-> "node",        res |-> "Node",   shared |-> FALSE, args |-> << A("id", "ID!", TRUE) >>]
 \* same argument NAME and named type as Query.item / Query.node but another wrapper (ID vs ID!): declared types must not be shared
 @@ "Query.maybe"      :> [parent |-> "Query",  name |-> "maybe",       res |-> "Item",   shared |-> FALSE, args |-> << A("id", "ID", FALSE) >>]
 @@ "Query.me"         :> [parent |-> "Query",  name |-> "me",          res |-> "Person", shared |-> FALSE, args |-> << >>]
 @@ "Query.version"    :> [parent |-> "Query",  name |-> "version",     res |-> "-",      shared |-> FALSE, args |-> << >>]
 @@ "Item.id"          :> [parent |-> "Item",   name |-> "id",          res |-> "-",      shared |-> TRUE,  args |-> << >>]
 @@ "Item.displayName" :> [parent |-> "Item",   name |-> "displayName", res |-> "-",      shared |-> TRUE,  args |-> << >>]
 @@ "Item.createdAt"   :> [parent |-> "Item",   name |-> "createdAt",   res |-> "-",      shared |-> TRUE,  args |-> << >>]
 @@ "Item.owner"       :> [parent |-> "Item",   name |-> "owner",       res |-> "Person", shared |-> FALSE, args |-> << >>]
 @@ "Item.related"     :> [parent |-> "Item",   name |-> "related",     res |-> "Item",   shared |-> FALSE, args |-> << A("firstN", "Int", FALSE), A("filter", "Filter", FALSE) >>]
 @@ "Person.id"        :> [parent |-> "Person", name |-> "id",          res |-> "-",      shared |-> TRUE,  args |-> << >>]
 @@ "Person.fullName"  :> [parent |-> "Person", name |-> "fullName",    res |-> "-",      shared |-> TRUE,  args |-> << >>]
 @@ "Person.items"     :> [parent |-> "Person", name |-> "items",       res |-> "Item",   shared |-> FALSE, args |-> << A("ids", "[ID!]!", TRUE), A("since", "Date", FALSE) >>]
 @@ "Item.thumb"       :> [parent |-> "Item",   name |-> "thumb",       res |-> "-",      shared |-> FALSE, args |-> << A("size", "Int", FALSE), A("format", "String", FALSE) >>]
 @@ "Person.avatar"    :> [parent |-> "Person", name |-> "avatar",      res |-> "-",      shared |-> FALSE, args |-> << A("size", "Int!", TRUE), A("format", "String", FALSE) >>]
 @@ "Node.id"          :> [parent |-> "Node",   name |-> "id",          res |-> "-",      shared |-> TRUE,  args |-> << >>] )
FKeys == DOMAIN FT
SharedKeys == {f \in FKeys : FT[f].shared}
Abstract == {"Node", "SearchResult"}
Members == [Node |-> {"Item", "Person"}, SearchResult |-> {"Item", "Person"}]
HasPlainFields(t) == t \in {"Item", "Person", "Node"}      \* the generated union class has no fields()

NoAlias == "-"
OptArgs(f) == {FT[f].args[i].n : i \in {j \in 1..Len(FT[f].args) : ~FT[f].args[j].req}}
\* an optional argument is either left as None or given; to keep the space small all-or-nothing
Givens(f) == IF OptArgs(f) = {} THEN {{}} ELSE {{}, OptArgs(f)}

\* a node of the expression tree: [f: field key, parent: index (0 = top level), frag: the inline fragment of the
\* parent it sits in ("-" = plain sub-field), alias, given: the optional arguments that are not None,
\* src: <<m, j>> when the node IS the object built as node j of the earlier operation m (the same Python object is
\* passed again), <<0, 0>> for an object built for this operation]
Fresh0 == <<0, 0>>

VARIABLES cur,          \* tree of the operation being built
          hist,         \* finished operations: sequence of trees (ghost: the expressions as written)
          docs,         \* the document produced for each finished operation
          sharedAlias   \* heap: _alias of each class-level shared field object
vars == <<cur, hist, docs, sharedAlias>>

\* ---- tree helpers ------------------------------------------------------------------------
TypeAt(tree, p, frag) == IF frag # "-" THEN frag ELSE IF p = 0 THEN "Query" ELSE FT[tree[p].f].res
RECURSIVE Ancestors(_, _)
Ancestors(tree, i) == IF i = 0 THEN {0} ELSE {i} \cup Ancestors(tree, tree[i].parent)
RightPath(tree) == IF tree = <<>> THEN {0} ELSE Ancestors(tree, Len(tree))
HasFragChild(tree, p) == \E j \in 1..Len(tree) : tree[j].parent = p /\ tree[j].frag # "-"
FragTypesOf(tree, p) == {tree[j].frag : j \in {k \in 1..Len(tree) : tree[k].parent = p /\ tree[k].frag # "-"}}
LastFragOf(tree, p) == LET js == {k \in 1..Len(tree) : tree[k].parent = p /\ tree[k].frag # "-"} IN
                       tree[CHOOSE k \in js : \A m \in js : m <= k].frag

RespKey(nd) == IF nd.alias # "-" THEN nd.alias ELSE FT[nd.f].name
\* may `nd` be appended to `tree`?  (well-typed, preorder, plain sub-fields before inline fragments,
\*  all sub-fields of one `on(T, ...)` call adjacent)
CanAdd(tree, nd) ==
  /\ Len(tree) < MaxNodes
  /\ nd.parent \in RightPath(tree)
  /\ (nd.parent # 0 => tree[nd.parent].src = Fresh0)      \* a reused object is passed as it is
  \* the expression must denote a legal selection set: sibling response keys are distinct
  /\ ~\E j \in 1..Len(tree) : tree[j].parent = nd.parent /\ RespKey(tree[j]) = RespKey(nd)
  /\ nd.given \in Givens(nd.f)
  /\ LET pt == IF nd.parent = 0 THEN "Query" ELSE FT[tree[nd.parent].f].res IN
     /\ pt # "-"
     /\ IF nd.frag = "-"
          THEN /\ FT[nd.f].parent = pt
               /\ (nd.parent # 0 => HasPlainFields(pt) /\ ~HasFragChild(tree, nd.parent))
          ELSE /\ nd.parent # 0 /\ pt \in Abstract /\ nd.frag \in Members[pt]
               /\ FT[nd.f].parent = nd.frag
               /\ (nd.frag \in FragTypesOf(tree, nd.parent) => LastFragOf(tree, nd.parent) = nd.frag)

\* ---- GraphQLField.to_ast: variable naming ------------------------------------------------
ArgsOf(nd) == SelectSeq(FT[nd.f].args, LAMBDA a : a.req \/ a.n \in nd.given)
RECURSIVE TopOf(_, _)
TopOf(tree, i) == IF tree[i].parent = 0 THEN i ELSE TopOf(tree, tree[i].parent)
\* idx passed to to_ast: position among the top-level fields, from 0
TopIdx(tree, i) == Cardinality({j \in 1..(TopOf(tree, i) - 1) : tree[j].parent = 0})
Cand(base, c) == IF c = 0 THEN base ELSE base \o "_" \o ToString(c)
\* _format_variable_name: first of base, base_1, base_2 ... not yet used under this top-level field
Fresh(base, used) == Cand(base, CHOOSE c \in 0..(3 * MaxNodes) : Cand(base, c) \notin used
                                                             /\ \A d \in 0..(c - 1) : Cand(base, d) \in used)
\* all argument references in to_ast order
RECURSIVE Refs(_, _)
Refs(tree, i) == IF i > Len(tree) THEN <<>>
                 ELSE [k \in 1..Len(ArgsOf(tree[i])) |-> [node |-> i, arg |-> ArgsOf(tree[i])[k].n, type |-> ArgsOf(tree[i])[k].t]]
                      \o Refs(tree, i + 1)
RECURSIVE Assign(_, _, _, _, _)
Assign(tree, refs, k, used, acc) ==
  IF k > Len(refs) THEN acc
  ELSE LET r == refs[k]
           g == TopOf(tree, r.node)
           base == r.arg \o "_" \o ToString(TopIdx(tree, r.node))
           nm == Fresh(base, used[g])
       IN Assign(tree, refs, k + 1, [used EXCEPT ![g] = @ \cup {nm}],
                 Append(acc, [node |-> r.node, arg |-> r.arg, var |-> nm, type |-> r.type]))
VarRefs(tree) == Assign(tree, Refs(tree, 1), 1, [g \in 1..Len(tree) |-> {}], <<>>)

\* ---- the document ------------------------------------------------------------------------
\* alias a node is printed with: shared objects carry whatever alias was last set on them
ShownAlias(nd, heap) == IF FT[nd.f].shared /\ ~AliasCopies THEN heap[nd.f] ELSE nd.alias
Doc(tree, heap) ==
  LET vr == VarRefs(tree) IN
  [ nodes |-> [i \in 1..Len(tree) |->
                 [name |-> FT[tree[i].f].name, alias |-> ShownAlias(tree[i], heap), parent |-> tree[i].parent,
                  frag |-> tree[i].frag,
                  args |-> LET mine == SelectSeq(vr, LAMBDA r : r.node = i) IN
                           [k \in 1..Len(mine) |-> <<mine[k].arg, mine[k].var>>]]],
    \* _combine_variables + _build_variable_definitions: one declaration per formatted variable
    decls |-> {<<vr[k].var, vr[k].type>> : k \in 1..Len(vr)} ]
\* the document the expression denotes on its own: every occurrence printed with its own alias
PureDoc(tree) == [Doc(tree, [s \in SharedKeys |-> NoAlias]) EXCEPT
                   !.nodes = [i \in 1..Len(tree) |-> [@[i] EXCEPT !.alias = tree[i].alias]]]

\* ---- actions -----------------------------------------------------------------------------
Init == cur = <<>> /\ hist = <<>> /\ docs = <<>> /\ sharedAlias = [s \in SharedKeys |-> NoAlias]

\* one builder call: Query.x(...), XFields.y(...), the attribute XFields.z, each optionally .alias(a),
\* attached to its parent by fields(...) / on(T, ...)
AddNode(nd) ==
  /\ Len(hist) < MaxOps
  /\ CanAdd(cur, nd)
  /\ cur' = Append(cur, nd)
  /\ sharedAlias' = IF FT[nd.f].shared /\ nd.alias # NoAlias /\ ~AliasCopies
                      THEN [sharedAlias EXCEPT ![nd.f] = nd.alias] ELSE sharedAlias
  /\ UNCHANGED <<hist, docs>>

\* the user passes a top-level field object of an EARLIER operation again (same Python object, new position)
SubtreeEnd(tree, j) == LET later == {k \in (j + 1)..Len(tree) : tree[k].parent = 0} IN
                       IF later = {} THEN Len(tree) ELSE (CHOOSE k \in later : \A x \in later : k <= x) - 1
ReuseTop(m, j) ==
  /\ Len(hist) < MaxOps
  /\ m \in 1..Len(hist) /\ j \in 1..Len(hist[m]) /\ hist[m][j].parent = 0
  /\ ~\E i \in 1..Len(cur) : cur[i].src = <<m, j>>            \* not the same object twice in one operation
  /\ ~\E i \in 1..Len(cur) : cur[i].parent = 0 /\ RespKey(cur[i]) = RespKey(hist[m][j])
  /\ LET e == SubtreeEnd(hist[m], j)  off == Len(cur) - j + 1 IN
     /\ Len(cur) + (e - j + 1) <= MaxNodes
     /\ cur' = cur \o [k \in 1..(e - j + 1) |->
                        [hist[m][j + k - 1] EXCEPT !.parent = IF @ = 0 THEN 0 ELSE @ + off,
                                                   !.src = IF hist[m][j + k - 1].src = Fresh0 THEN <<m, j + k - 1>> ELSE @]]
  /\ UNCHANGED <<hist, docs, sharedAlias>>

\* client.query(*fields, operation_name=...)
Complete(tree) == \A i \in 1..Len(tree) : FT[tree[i].f].res # "-" => \E j \in 1..Len(tree) : tree[j].parent = i
Build ==
  /\ cur # <<>> /\ Complete(cur)            \* every composite field has a selection
  /\ hist' = Append(hist, cur) /\ docs' = Append(docs, Doc(cur, sharedAlias))
  /\ cur' = <<>>
  /\ UNCHANGED sharedAlias

Next == \/ \E f \in FKeys, p \in RightPath(cur), fr \in {"-", "Item", "Person"}, al \in Aliases \cup {NoAlias} :
             \E g \in Givens(f) : AddNode([f |-> f, parent |-> p, frag |-> fr, alias |-> al, given |-> g, src |-> Fresh0])
        \/ \E m \in 1..Len(hist) : \E j \in 1..Len(hist[m]) : ReuseTop(m, j)
        \/ Build
Spec == Init /\ [][Next]_vars

\* ---- properties --------------------------------------------------------------------------
LastDoc == docs[Len(docs)]
LastTree == hist[Len(hist)]
Vars(d) == {p[1] : p \in d.decls}
UsedVars(d) == UNION {{d.nodes[i].args[k][2] : k \in 1..Len(d.nodes[i].args)} : i \in 1..Len(d.nodes)}
ArgType(f, a) == LET s == SelectSeq(FT[f].args, LAMBDA x : x.n = a) IN s[1].t

\* every variable used is declared exactly once, with the argument's exact GraphQL type
DocValid ==
  docs # <<>> =>
    LET d == LastDoc  t == LastTree IN
    /\ UsedVars(d) = Vars(d)
    /\ \A p, q \in d.decls : p[1] = q[1] => p = q
    /\ \A i \in 1..Len(t) : \A k \in 1..Len(d.nodes[i].args) :
          <<d.nodes[i].args[k][2], ArgType(t[i].f, d.nodes[i].args[k][1])>> \in d.decls
    \* a variable is bound to one argument occurrence only (each carries its own value)
    /\ \A i, j \in 1..Len(t) : \A k \in 1..Len(d.nodes[i].args) : \A m \in 1..Len(d.nodes[j].args) :
          d.nodes[i].args[k][2] = d.nodes[j].args[m][2] => (i = j /\ k = m)
\* arguments left as None are omitted, required and given ones are present, under their GraphQL names
ArgsExact ==
  docs # <<>> =>
    \A i \in 1..Len(LastTree) :
      {LastDoc.nodes[i].args[k][1] : k \in 1..Len(LastDoc.nodes[i].args)}
        = {a.n : a \in {FT[LastTree[i].f].args[j] : j \in 1..Len(FT[LastTree[i].f].args)} \ {x \in {FT[LastTree[i].f].args[j] : j \in 1..Len(FT[LastTree[i].f].args)} : ~x.req /\ x.n \notin LastTree[i].given}}
\* the document depends only on the expression that built it
LeakActive(k) == \E i \in 1..Len(hist[k]) : FT[hist[k][i].f].shared /\ docs[k].nodes[i].alias # hist[k][i].alias
HistoryFree == \A k \in 1..Len(docs) : docs[k] = PureDoc(hist[k])
\* as built: the only way a document differs from its expression is the recorded alias leak
HistoryFreeUpToLeak == \A k \in 1..Len(docs) : docs[k] = PureDoc(hist[k]) \/ LeakActive(k)
=============================================================================
