"""C13 handshake leg: the real subscription iterator against a real `websockets` server on the loop-back interface.

mode "asis":   ws_connect is the library's connect, untouched (only logged).
mode "adapt":  a harness-side adapter renames extra_headers -> additional_headers (websockets >= 14 API) so that the
               rest of the real session can be validated while the keyword finding is open.
"""
import asyncio
import json
import sys

from .util import load_payload, emit, import_pkg, exc_kind
from .c13 import frame, INIT_PAYLOAD, WS_HEADERS, ORIGIN, QUERY_NAME


class LogConn:
    def __init__(self, ws, log, st):
        self.ws, self.log, self.st = ws, log, st
        self.pos = 0
        self.closed = False

    async def send(self, msg):
        d = json.loads(msg)
        t = d.get("type")
        if t == "connection_init":
            want = self.st["init_payload"]
            ok = (d.get("payload") == want) if want else ("payload" not in d)
            self.log.append({"e": "send", "frame": "init+payload" if "payload" in d else "init", "ok": bool(ok)})
        elif t == "subscribe":
            p = d.get("payload") or {}
            ok = p.get("query") == self.st["query"] and p.get("operationName") == QUERY_NAME and p.get("variables") == self.st["variables"]
            self.log.append({"e": "send", "frame": "subscribe+vars" if "variables" in p else "subscribe", "ok": bool(ok)})
        elif t == "pong":
            self.log.append({"e": "send", "frame": "pong", "ok": True})
        else:
            self.log.append({"e": "send", "frame": "other:" + str(t), "ok": False})
        await self.ws.send(msg)

    def _got(self, msg):
        self.pos += 1
        self.log.append({"e": "recv", "i": self.pos, "kind": self.st["inbox"][self.pos - 1] if self.pos <= len(self.st["inbox"]) else "?"})
        return msg

    async def recv(self):
        return self._got(await self.ws.recv())

    def __aiter__(self):
        return self

    async def __anext__(self):
        if self.closed:
            raise StopAsyncIteration
        try:
            msg = await self.ws.recv()
        except Exception as ex:  # ConnectionClosedOK: the server closed normally
            if type(ex).__name__ == "ConnectionClosedOK":
                self.log.append({"e": "eof"})
                raise StopAsyncIteration
            raise
        return self._got(msg)

    async def close(self, *a, **k):
        self.log.append({"e": "close"})
        self.closed = True
        await self.ws.close()


async def session(pkg, basemod, real_connect, port, case, mode, srv_state):
    log = [{"e": "case", "inbox": case["inbox"], "payload": case["payload"], "vars": "filtered", "via": "loopback",
            "client": case["client"]}]
    srv_state.update({"inbox": case["inbox"], "seen": None})
    query = "subscription Count($start: Int) { counter(start: $start) { n label } }"
    st = {"init_payload": INIT_PAYLOAD if case["payload"] else None, "query": query, "variables": {"start": 7},
          "inbox": case["inbox"]}

    class Ctx:
        def __init__(self, url, **kw):
            self.url, self.kw = url, kw

        async def __aenter__(self):
            kw = dict(self.kw)
            if mode == "adapt" and "extra_headers" in kw:
                kw["additional_headers"] = kw.pop("extra_headers")
            self.cm = real_connect(self.url, **kw)
            ws = await self.cm.__aenter__()
            seen = srv_state["seen"] or {}
            log.append({"e": "connect", "url_ok": True, "subprotocol_ok": ws.subprotocol == "graphql-transport-ws" and seen.get("subprotocol") == "graphql-transport-ws",
                        "headers_ok": all(seen.get("headers", {}).get(k.lower()) == v for k, v in WS_HEADERS.items()),
                        "origin_ok": seen.get("headers", {}).get("origin") == ORIGIN})
            return LogConn(ws, log, st)

        async def __aexit__(self, *a):
            return await self.cm.__aexit__(*a)

    basemod.ws_connect = Ctx
    kw = {"ws_url": f"ws://127.0.0.1:{port}/graphql", "ws_headers": dict(WS_HEADERS), "ws_origin": ORIGIN}
    if case["payload"]:
        kw["ws_connection_init_payload"] = INIT_PAYLOAD
    if case.get("tracer"):
        kw["tracer"] = case["tracer"]
    import httpx
    kw["http_client"] = SHARED[0]
    client = pkg.Client(**kw)
    n = 0
    try:
        async for item in client.execute_ws(query=query, operation_name=QUERY_NAME, variables={"start": 7}):
            n += 1
            i = item.get("counter", {}).get("n")
            log.append({"e": "yield", "i": i, "ok": item == {"counter": {"n": i, "label": f"l{i}"}}})
        result = "done"
    except Exception as ex:  # noqa
        result = exc_kind(ex)
        if result.startswith("other:"):
            log.append({"e": "exc", "repr": repr(ex)[:300]})
    log.append({"e": "end", "result": result, "nyielded": n})
    return log


SHARED = [None]


def main():
    P = load_payload()
    pkg = import_pkg(P["package"])
    basecls = pkg.Client.__mro__[1]
    basemod = sys.modules[basecls.__module__]
    import httpx
    import websockets
    from websockets.asyncio.server import serve
    real_connect = basemod.ws_connect
    srv_state = {}

    async def handler(ws):
        srv_state["seen"] = {"subprotocol": ws.subprotocol, "headers": {k.lower(): v for k, v in ws.request.headers.raw_items()}}
        inbox = srv_state["inbox"]
        try:
            first = json.loads(await ws.recv())
            op_id = "none"
            await ws.send(frame(inbox[0], 1, op_id))
            if inbox[0] != "ack":
                await asyncio.sleep(0.01)
                return
            sub = json.loads(await ws.recv())
            op_id = sub.get("id")
            for i, k in enumerate(inbox[1:], start=2):
                await ws.send(frame(k, i, op_id))
                if k == "ping":
                    await ws.recv()  # wait for the pong so the order on the client is deterministic
            await asyncio.sleep(0.01)
        except Exception:
            pass

    async def go():
        SHARED[0] = httpx.AsyncClient()
        out = []
        async with serve(handler, "127.0.0.1", 0, subprotocols=["graphql-transport-ws"]) as server:
            port = server.sockets[0].getsockname()[1]
            for case in P["cases"]:
                out.append(await asyncio.wait_for(session(pkg, basemod, real_connect, port, case, P["mode"], srv_state), 20))
        return out

    traces = asyncio.run(go())
    emit({"traces": traces, "websockets_version": websockets.__version__})


if __name__ == "__main__":
    main()
