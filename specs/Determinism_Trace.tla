-------------------------- MODULE Determinism_Trace --------------------------
(* Trace validation for Determinism: real generations of one input in different environments, logged as                  *)
(*    case(input)   run(seed, order, target, digest)*                                                                    *)
(* digest = sha256 over every generated file.  The spec's output for an input is a function of the input only (all       *)
(* emission points are order-normalised), so every run of a trace has to carry the same digest.                          *)
EXTENDS Determinism, Json, IOUtils, SequencesExt

Traces == JsonDeserialize(IOEnv.TRACE_FILE)
N == Len(Traces)
ASSUME \A t \in 1..N : TLCSet(t, 0)
TInputs == {Traces[t][1].input : t \in 1..N}
TUses == [i \in TInputs |-> {"all"}]
TPoints == [p \in {"all"} |-> "sorted"]
TSeeds == 0..100000
TOrders == 0..50
TTargets == {"fresh", "existing"}

VARIABLES tid, l, digest
tvars == <<vars, tid, l, digest>>
Ev == Traces[tid][l]
TraceInit == tid \in 1..N /\ l = 2 /\ input = Traces[tid][1].input /\ runs = <<>> /\ digest = "none"
T_Run ==
  /\ l <= Len(Traces[tid]) /\ Ev.e = "run" /\ l' = l + 1 /\ tid' = tid
  /\ [seed |-> Ev.seed, order |-> Ev.order, target |-> Ev.target] \in Envs      \* a known environment
  /\ Run([seed |-> Ev.seed, order |-> Ev.order, target |-> Ev.target])
  /\ (digest = "none" \/ Ev.digest = digest)        \* same bytes as every earlier run of this input
  /\ digest' = Ev.digest
TraceNext == T_Run
TraceSpec == TraceInit /\ [][TraceNext]_tvars
Reached == TLCSet(tid, IF l > TLCGet(tid) THEN l ELSE TLCGet(tid))
Accepted ==
  LET bad == {t \in 1..N : TLCGet(t) # Len(Traces[t]) + 1} IN
  /\ \A t \in bad : PrintT(<<"REJECTED", t, TLCGet(t)>>)
  /\ bad = {}
=============================================================================
