------------------------------ MODULE GenConfig ------------------------------
(* C04 -- every valid input generates, and what is generated loads.                                                    *)
(* One behaviour = one run of the client strategy for a configuration vector and a set of operations:                   *)
(*   Generate (or a documented refusal) -> Import every module in a fresh interpreter -> compare __all__ with the         *)
(*   package namespace -> compare the reported file list with the directory.                                              *)
(* The phase order inside Generate is the Pruning / Pipeline specs'; this module owns the configuration space.           *)
EXTENDS Naturals, Sequences, FiniteSets, TLC

CONSTANTS Options,       \* documented options that can be switched away from their default
          OpSets,        \* classes of operation sets
          MaxOn,         \* at most this many options away from the default at once
          Deviations     \* open findings: combinations that are known not to load

Configs == {S \in SUBSET Options : Cardinality(S) <= MaxOn}
\* an operation (or an included file) whose file name is the name of another file of the package: client, enums module,
\* exceptions.py, base_model.py, the base client file, a file from files_to_include
CollidingSets == {"colliding_file_names", "collide_exceptions", "collide_base_model", "collide_base_client", "collide_enums", "collide_include"}
\* the documented refusals (the only ones allowed)
Refused(cfg, ops) == CASE ops = "subscription" /\ "sync" \in cfg -> "NotSupported"
                       [] ops = "anonymous" -> "ParsingError"
                       [] ops \in CollidingSets -> "ParsingError"
                       [] ops = "malformed_mixin" -> "CodeGenException"
                       [] OTHER -> "none"
\* as built: custom operations x pruning (F20), custom operations x renamed input-types module (F21)
KnownBroken(cfg, ops) ==
  \/ ("custom_ops_x_pruning" \in Deviations /\ "custom_ops" \in cfg /\ ({"prune_inputs", "prune_enums"} \cap cfg # {}))
  \/ ("custom_ops_x_renamed_inputs" \in Deviations /\ "custom_ops" \in cfg /\ "renamed_modules" \in cfg)

VARIABLES cfg, ops, stage, outcome, loads, allExact, reportExact
vars == <<cfg, ops, stage, outcome, loads, allExact, reportExact>>
Init == /\ cfg \in Configs /\ ops \in OpSets /\ stage = "start" /\ outcome = "-"
        /\ loads = FALSE /\ allExact = FALSE /\ reportExact = FALSE
Generate == /\ stage = "start"
            /\ outcome' = IF Refused(cfg, ops) # "none" THEN Refused(cfg, ops) ELSE "generated"
            /\ stage' = IF Refused(cfg, ops) # "none" THEN "refused" ELSE "generated"
            /\ UNCHANGED <<cfg, ops, loads, allExact, reportExact>>
Import == /\ stage = "generated" /\ stage' = "imported" /\ loads' = ~KnownBroken(cfg, ops)
          /\ UNCHANGED <<cfg, ops, outcome, allExact, reportExact>>
Inspect == /\ stage = "imported" /\ stage' = "inspected" /\ allExact' = loads /\ reportExact' = TRUE
           /\ UNCHANGED <<cfg, ops, outcome, loads>>
Next == Generate \/ Import \/ Inspect
Spec == Init /\ [][Next]_vars

\* generation only ever refuses for a documented reason, with the documented error
RefusalsDocumented == stage # "start" => (outcome = "generated" <=> Refused(cfg, ops) = "none")
\* every emitted module imports with all pydantic models built and every reference resolvable
EverythingLoads == stage \in {"imported", "inspected"} => (loads \/ KnownBroken(cfg, ops))
InitAllExact == stage = "inspected" => (allExact \/ KnownBroken(cfg, ops))
ReportedEqualsWritten == stage = "inspected" => reportExact
=============================================================================
