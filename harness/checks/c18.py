"""C18 -- GraphQL names map lawfully to Python names.

leg 1: TLC enumerates every name over a reduced alphabet (and an explicit list: all Python keywords, soft keywords, every
       public pydantic.BaseModel attribute, with underscore / camelCase variants), computes the transcribed mapping for the
       flag combinations of the five call sites and checks the laws; for pairs it checks NoSilentMerge on the intended design.
leg 2: the REAL str_to_snake_case / process_name are run on every enumerated name and compared with the transcription
       (difference = drift unless a law breaks); colliding pairs computed by TLC are planted into real schemas / operations in
       every scope (response keys, input fields, enum values, operations) and generated.
leg 3: map / plant traces are validated by Names_Trace.
"""
import json
import re
import keyword
import random

from ..common import Verdict, run_tlc, tlc_must_pass, validate_traces_parallel, pmap, Machinery, run_py, seed
from ..gen import write_job, generate, run_in_pkg

FLAGSETS = {"snake_trim_res": (True, True, True), "snake": (True, False, False), "plain_trim_res": (False, True, True),
            "plain": (False, False, False), "snake_res": (True, False, True)}
CFG = """SPECIFICATION Spec
CONSTANTS Names <- AllNames
 Keywords <- KW
 Reserved <- RES
 Deviations <- NoDev
 PlantNames <- PlantSet
INVARIANT LawsHoldOrKnown
INVARIANT NoSilentMerge
CHECK_DEADLOCK FALSE
"""
REAL = r'''
import json, sys
from ariadne_codegen.utils import process_name, PYDANTIC_RESERVED_FIELD_NAMES
rows = json.load(open(sys.argv[1]))
FL = json.load(open(sys.argv[2]))
out = []
for r in rows:
    n = "".join(r["name"])
    o = {}
    for k, (sn, tr, rs) in FL.items():
        try:
            p = process_name(n, convert_to_snake_case=sn, trim_leading_underscore=tr, handle_pydantic_resrved_field_names=rs)
            p2 = process_name(p, convert_to_snake_case=sn, trim_leading_underscore=tr, handle_pydantic_resrved_field_names=rs)
        except Exception as ex:
            p, p2 = "@exc:" + type(ex).__name__, ""
        o[k] = [p, p2]
    out.append(o)
print("@@" + json.dumps({"rows": out, "reserved": sorted(PYDANTIC_RESERVED_FIELD_NAMES)}))
'''


def chars(s):
    return list(s)


def list_names(reserved):
    base = set(keyword.kwlist) | set(keyword.softkwlist) | set(reserved)
    base = {b for b in base if b.isidentifier() and not b.startswith("__")}
    names = set(base)
    for b in sorted(base):
        names.add("_" + b)
        names.add(b + "_")
        if "_" in b.strip("_"):
            parts = b.split("_")
            names.add(parts[0] + "".join(x.capitalize() for x in parts[1:]))      # camelCase spelling
        names.add(b.capitalize())
    names |= {"fooBar", "foo_bar", "FooBar", "fooBAR", "HTTPResponse", "getHTTPResponseCode", "x1y2", "a__b", "_1", "_1a", "__typenameLike",
              "Query", "id", "ID", "URL", "url_", "_private", "camelCaseName", "snake_case_name", "UPPER_CASE", "mixed_Case_Name"}
    return sorted(n for n in names if n and (n[0].isalpha() or n[0] == "_") and not n.startswith("__") and all(c.isalnum() or c == "_" for c in n) and n.isascii())


def laws_py(n, p, p2, res_flag, reserved):
    return {"identifier": p.isidentifier(), "not_keyword": not keyword.iskeyword(p), "not_reserved": (not res_flag) or p not in reserved,
            "idempotent": p2 == p,
            "keeps_alnum": set(n) == {"_"} or [c.lower() for c in p if c != "_"] == [c.lower() for c in n if c != "_"]}


def plant(work, tag, a, b, scope, snake):
    if scope == "fields":
        sdl = f"type T {{ {a}: Int {b}: Int }}\ntype Query {{ t: T }}\n"
        q = f"query PairOp {{ t {{ {a} {b} }} }}\n"
    elif scope == "input":
        sdl = f"input PairIn {{ {a}: Int {b}: Int }}\ntype Query {{ f(i: PairIn): Int }}\n"
        q = "query PairOp($i: PairIn) { f(i: $i) }\n"
    elif scope == "enum":
        sdl = f"enum PairEnum {{ {a} {b} }}\ntype Query {{ f(e: PairEnum): Int }}\n"
        q = "query PairOp($e: PairEnum) { f(e: $e) }\n"
    elif scope == "alias_in_fragment":   # one schema field under three response keys: plain, aliased in an inline fragment, aliased in a fragment on the interface
        sdl = "interface N { val: Int }\ntype T implements N { val: Int other: Int }\ntype Query { t: T }\n"
        q = f"query PairOp {{ t {{ val ... on T {{ {a}: val }} ...NF }} }}\nfragment NF on N {{ {b}: val }}\n"
    elif scope == "enum_default":   # the member name is written twice: in enums.py and where an input default refers to it
        sdl = f"enum PairEnum {{ {a} {b} }}\ninput PairIn {{ e: PairEnum = {a} l: [PairEnum!] = [{b}, {a}] }}\ntype Query {{ f(i: PairIn): Int }}\n"
        q = "query PairOp($i: PairIn) { f(i: $i) }\n"
    elif scope == "variables":      # two variables of one operation = two arguments of one generated method
        sdl = f"type Query {{ f({a}: Int, {b}: Int): Int }}\n"
        q = f"query PairOp(${a}: Int, ${b}: Int) {{ f({a}: ${a}, {b}: ${b}) }}\n"
    else:
        sdl = "type Query { x: Int }\n"
        q = f"query {a} {{ x }}\nquery {b} {{ x }}\n"
    job = write_job(work.dir / f"pl_{tag}", schema=sdl, queries=q, package="gclient",
                    options={"async_client": False, "convert_to_snake_case": snake})
    r = generate(job)
    if r["exc_class"]:
        codegen = "CodeGenException" in (r.get("exc_mro") or [])
        return {"fate": "refused" if codegen else "crashed", "exc": r["exc_class"], "msg": (r["exc_msg"] or "")[:200]}
    try:
        o = run_in_pkg(job, "harness.pkg.c18", {"package": "gclient", "a": a, "b": b, "scope": scope})
    except Machinery as ex:
        o = {"fate": "broken", "error": str(ex)[-300:]}
    import shutil
    shutil.rmtree(job, ignore_errors=True)
    return o


def run(tier, work, replay=None):
    v = Verdict("C18", tier)
    q = tier == "quick"
    # real reserved list comes from the code under test (it is computed from the installed pydantic)
    probe = run_py(["-c", "import json; from ariadne_codegen.utils import PYDANTIC_RESERVED_FIELD_NAMES as R; print('@@' + json.dumps(sorted(R)))"])
    reserved = json.loads([ln for ln in probe.stdout.splitlines() if ln.startswith("@@")][-1][2:])
    import pydantic
    true_reserved = sorted(n for n in dir(pydantic.BaseModel) if not n.startswith("_"))
    lnames = list_names(true_reserved)
    lists = work.dir / "lists.json"
    lists.write_text(json.dumps({"names": [chars(n) for n in lnames], "keywords": [chars(k) for k in keyword.kwlist],
                                 "reserved": [chars(r) for r in true_reserved]}))
    rows_all = []
    pairs = []
    for nameset, maxlen in (("enum", "3" if q else "4"), ("list", "3")):
        out = work.dir / f"rows_{nameset}.json"
        pf = work.dir / f"pairs_{nameset}.json"
        env = {"MAXLEN": maxlen, "PAIRLEN": "2" if (q or nameset == "list") else "3", "NAMESET": nameset, "LISTS_FILE": str(lists), "OUT_FILE": str(out),
               "PAIRS_FILE": str(pf) if nameset == "enum" else ""}
        cfg = CFG if nameset == "enum" else CFG.replace("INVARIANT NoSilentMerge\n", "")
        res = run_tlc("Names_MC", cfg, work.sub("tlc_" + nameset), env=env, timeout=3400)
        tlc_must_pass(res, f"Names_MC {nameset}")
        v.add_tlc(res, f"Names: {nameset} names, laws + NoSilentMerge (intended design)")
        rows_all += json.loads(out.read_text())
        if nameset == "enum":
            pairs = json.loads(pf.read_text())
    # ---- leg 2a: the real functions on every name
    rf = work.dir / "rows_all.json"
    rf.write_text(json.dumps(rows_all))
    ff = work.dir / "flags.json"
    ff.write_text(json.dumps(FLAGSETS))
    p = run_py(["-c", REAL, str(rf), str(ff)], timeout=900)
    line = [ln for ln in p.stdout.splitlines() if ln.startswith("@@")]
    if not line:
        raise Machinery("real-function probe failed: " + p.stderr[-400:])
    real = json.loads(line[-1][2:])
    traces, owners = [], []
    drift = 0
    for r, ro in zip(rows_all, real["rows"]):
        n = "".join(r["name"])
        for k, (sn, tr, rs) in FLAGSETS.items():
            spec_py = "".join(r["out"][k]["py"])
            py, py2 = ro[k]
            feats = {"name": n, "flags": k, "shape": ("all_underscore" if set(n) == {"_"} else ("digit_first" if py[:1].isdigit() else "other"))}
            lw = laws_py(n, py, py2, rs, true_reserved)
            for law, ok in lw.items():
                if not ok:
                    v.violation(dict(feats, law=law), f"law_broken:{law}", {"name": n, "python_name": py, "again": py2})
            if py != spec_py:
                drift += 1
                v.note_drift(f"mapping of {n!r} [{k}] is {py!r}, the transcription says {spec_py!r}")
            traces.append([{"e": "case", "name": r["name"], "snake": sn, "trim": tr, "res": rs}, {"e": "map", "py": chars(py)}])
            owners.append(feats)
    # the code's reserved list must be the public attributes of the installed BaseModel
    missing = sorted(set(true_reserved) - set(reserved))
    if missing:
        v.violation({"name": ",".join(missing[:5]), "flags": "reserved_list", "shape": "reserved_list", "law": "not_reserved"},
                    "reserved_list_incomplete", {"missing": missing})
    # ---- leg 2b: colliding pairs planted in every scope
    rnd = random.Random(seed())
    cand = []
    for pr in pairs:
        a, b = "".join(pr["a"]), "".join(pr["b"])
        if a.startswith("__") or b.startswith("__") or a in ("true", "false", "null") or a > b:
            continue
        for scope, snake, key in (("fields", True, "fields_snake"), ("fields", False, "fields_plain"), ("input", True, "fields_snake"),
                                  ("input", False, "fields_plain"), ("ops", True, "ops"), ("enum", True, "enum"),
                                  # method arguments are snake-cased but neither trimmed nor checked against pydantic's names:
                                  # pairs that only collide after trimming must stay distinct there
                                  ("variables", True, "ops"), ("variables", False, "fields_plain"), ("variables", False, "enum")):
            if pr[key]:
                cand.append((a, b, scope, snake))
    extra = [("fooBar", "foo_bar", "fields", True), ("fooBar", "foo_bar", "input", True), ("getItem", "GetItem", "ops", True),
             ("get_item", "getItem", "ops", True), ("in", "in_", "enum", True), ("from", "from_", "fields", True), ("from", "from_", "input", False),
             ("copy", "copy_", "fields", True), ("query", "_query", "fields", True), ("fooBar", "fooBaz", "fields", True), ("a", "b", "ops", True),
             ("_x", "x", "variables", False), ("_id", "id", "variables", False), ("a", "b", "variables", True), ("fooBar", "foo_bar", "variables", True),
             ("fooBar", "foo_bar", "variables", False), ("in", "in_", "variables", False),
             # one variable whose PYTHON name equals a local of the generated method only after snake-casing / trimming
             ("Query", "zz", "variables", True), ("QUERY", "zz", "variables", True), ("query_", "zz", "variables", True), ("_query", "zz", "variables", True),
             ("Data", "zz", "variables", True), ("Variables", "zz", "variables", True), ("_response", "zz", "variables", True),
             ("Kwargs", "zz", "variables", True), ("Self", "zz", "variables", True), ("Query", "zz", "variables", False), ("operationName", "zz", "variables", True),
             ("large", "nodeVal", "alias_in_fragment", True), ("x", "y", "alias_in_fragment", False), ("other", "nodeVal2", "alias_in_fragment", True),
             ("type", "match", "enum_default", True), ("case", "_", "enum_default", True), ("in", "None", "enum_default", True),
             ("name", "value", "enum_default", True), ("RED", "async", "enum_default", False), ("from", "type", "enum_default", True)]
    rnd.shuffle(cand)
    cand = extra + cand[: (40 if q else 400)]
    outs = pmap(lambda t: (t[1], plant(work, str(t[0]), *t[1])), list(enumerate(cand)))
    for (a, b, scope, snake), o in outs:
        feats = {"name": f"{a}+{b}", "scope": scope, "snake": snake, "shape": "pair",
                 "kw_suffix_pair": bool(keyword.iskeyword(a) and b == a + "_"),
                 "digit_after_underscores": bool(re.match(r"_+[0-9]", a) or re.match(r"_+[0-9]", b))}
        fate = o.get("fate")
        sn, tr, rs = {"fields": (snake, True, True), "input": (snake, True, True), "ops": (True, False, False), "enum": (False, False, False),
                      "variables": (snake, False, False), "enum_default": (False, False, False),
                      "alias_in_fragment": (snake, True, True)}[scope]
        pa = None
        if scope not in ("enum", "enum_default", "alias_in_fragment"):
            pa = json.loads(run_py(["-c", f"import json; from ariadne_codegen.utils import process_name as p; print(json.dumps([p({a!r}, convert_to_snake_case={sn}, trim_leading_underscore={tr}, handle_pydantic_resrved_field_names={rs}), p({b!r}, convert_to_snake_case={sn}, trim_leading_underscore={tr}, handle_pydantic_resrved_field_names={rs})]))"]).stdout.strip().splitlines()[-1])
            # do the two names map to ONE Python name (the known silent-merge findings are about exactly those pairs)?
            feats["same_python_name"] = pa[0] == pa[1]
        if fate in ("crashed", "broken"):
            v.violation(feats, f"pair_{fate}", o)
        elif fate == "merged":
            v.violation(feats, "silently_merged", o)
        if pa is None:
            continue        # enum members are not mapped by process_name (keyword suffix only): judged by fate alone
        traces.append([{"e": "case", "name": chars(a), "snake": sn, "trim": tr, "res": rs}, {"e": "map", "py": chars(pa[0])},
                       {"e": "plant", "other": chars(b), "py_other": chars(pa[1]), "fate": fate if fate in ("distinct", "refused", "merged") else "merged"}])
        owners.append(feats)
    v.cov["evaluations"] = len(rows_all) * len(FLAGSETS) + len(cand)
    rs_, rejected, inv = validate_traces_parallel("Names_Trace", "Names_Trace.cfg", traces, work.sub("tv"), chunk_size=1500,
                                                  env={"LISTS_FILE": str(lists)})
    for r3 in rs_:
        v.add_tlc(r3, "Names_Trace")
    bad = set(rejected) | {t for _, t in inv if t is not None}
    for t in sorted(bad):
        why = [i for i, tt in inv if tt == t]
        if not why and owners[t].get("shape") != "pair":
            continue       # a pure spelling difference is drift (already noted), not a violation
        v.violation(owners[t], "trace_rejected:" + (",".join(why) or "plant"), {"trace": traces[t]})
    v.cov["traces_validated_against_impl"] = len(traces) - len(bad)
    v.cov["mapping_drift"] = drift
    v.cov["distinct_nontrivial"] = len([1 for r, ro in zip(rows_all, real["rows"]) if any(ro[k][0] != "".join(r["name"]) for k in FLAGSETS)]) + len(cand)
    v.cov["rule"] = ("names = all strings up to the bound over {i,f,s,n,I,S,1,_} plus every Python keyword / soft keyword / public "
                     "BaseModel attribute with underscore, capitalised and camelCase variants, under 5 flag combinations; pairs = names "
                     "that TLC finds colliding, planted in response-key / input-field / operation / enum-value scopes; non-trivial = the "
                     "mapping changes the name, or a planted pair")
    v.cov["exhaustive"] = True
    for k in (0, len(traces) // 2, len(traces) - 1):
        v.sample(traces[k])
    v.assumptions += ["keyword.kwlist / softkwlist and dir(pydantic.BaseModel) of the installed versions are the reference lists"]
    return v.finish()
