import sys, os, hashlib, json
sys.path.insert(0, "/tmp/exp")
from gen import *
schema = '''
interface Node { id: ID! }
type Aa implements Node { id: ID! a: Int }
type Bb implements Node { id: ID! b: Int }
type Cc implements Node { id: ID! c: Int }
type Dd implements Node { id: ID! d: Int }
type Ee implements Node { id: ID! e: Int }
enum E1 { X } enum E2 { Y }
type Query { node: Node! aa: Aa e1: E1 e2: E2 }
'''
q = '''
fragment Fz on Aa { id } fragment Fy on Aa { a } fragment Fx on Aa { id a }
fragment Aroot on Aa { ...Fz ...Fy ...Fx }
query Q { node { id ... on Aa { a } } aa { ...Aroot } e1 e2 }
'''
extra = 'plugins=["ariadne_codegen.contrib.client_forward_refs.ClientForwardRefsPlugin","ariadne_codegen.contrib.shorter_results.ShorterResultsPlugin"]' if len(sys.argv) > 1 else ''
d, n, r = generate(schema, q, name="detpkg", extra=extra); show(r)
h = {}
for f in sorted(os.listdir(d/n)):
    if f.endswith(".py"): h[f] = hashlib.sha256((d/n/f).read_bytes()).hexdigest()[:10]
print(json.dumps(h))
