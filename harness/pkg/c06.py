"""In-package driver for C06: every use (how, given) of every enumerated input field on the real generated classes."""
import datetime
import enum
import json

import httpx
import pydantic
from graphql import build_schema, graphql_sync, coerce_input_value

from .util import load_payload, emit, import_pkg


def plain(v):
    if isinstance(v, pydantic.BaseModel):
        return {k: plain(x) for k, x in v.model_dump(by_alias=True).items()}
    if isinstance(v, enum.Enum):
        return v.value
    if isinstance(v, (datetime.date, datetime.datetime)):
        return v.isoformat()
    if isinstance(v, list):
        return [plain(x) for x in v]
    if isinstance(v, dict):
        return {k: plain(x) for k, x in v.items()}
    return v


def strip_none(d):
    """graphql-core fills absent nullable fields of nested inputs only when they have defaults; compare modulo None members"""
    if isinstance(d, dict):
        return {k: strip_none(v) for k, v in d.items() if v is not None}
    if isinstance(d, list):
        return [strip_none(x) for x in d]
    return d


def covers(got, value):
    """`got` carries everything of `value`; what it carries in addition is None or the default of Sub.d (10), i.e. what the
    model / the server fills in for members the caller did not give"""
    if isinstance(value, dict) and isinstance(got, dict):
        return all(k in got and covers(got[k], v) for k, v in value.items()) and \
            all(got[k] is None or (k == "d" and got[k] == 10) for k in got if k not in value)
    if isinstance(value, list) and isinstance(got, list):
        return len(value) == len(got) and all(covers(g, v) for g, v in zip(got, value))
    return got == value


def main():
    P = load_payload()
    pkg = import_pkg(P["package"])
    it = import_pkg(P["package"] + ".input_types")
    schema = build_schema(P["sdl"])
    seen = {}

    def resolver(src, info, **kw):
        seen["kw"] = kw
        return True

    def handler(request):
        body = json.loads(request.content)
        seen["body"] = body
        res = graphql_sync(schema, body["query"], variable_values=body.get("variables") or {}, field_resolver=resolver)
        out = {"data": res.data}
        if res.errors:
            out["errors"] = [{"message": str(e)} for e in res.errors]
        return httpx.Response(200, json=out)
    client = pkg.Client(url="http://x", http_client=httpx.Client(transport=httpx.MockTransport(handler)))
    methods = {m.replace("_", "").lower(): m for m in dir(client) if not m.startswith("_")}
    results = []
    for u in P["uses"]:
        idx, gname, how, given = u["idx"], u["gname"], u["how"], u["given"]
        rec = {"use": u, "events": []}
        try:
            cls = getattr(it, f"I{idx}")
            gtype = schema.type_map[f"I{idx}"]
            pyname = [n for n, fi in cls.model_fields.items() if (fi.alias or n) == gname]
            rec["pyname"] = pyname[0] if pyname else None
            if not pyname:
                rec["problem"] = "field_missing_in_model"
                results.append(rec)
                continue
            pyname = pyname[0]
            ref_default = coerce_input_value({"pad": 1}, gtype).get(gname, "@absent") if not u["required"] else "@required"
            kwargs = {"pad": 1}
            value = u["value"]
            if given == "value":
                v = value
                if u.get("value_model") and how == "python_name":
                    v = getattr(it, u["value_model"]).model_validate(value) if not isinstance(value, list) else [getattr(it, u["value_model"]).model_validate(x) for x in value]
                if u.get("value_kind") == "date":
                    v = datetime.date.fromisoformat(value)
                if u.get("value_kind") == "enum":
                    v = [pkg.Color(x) for x in value] if isinstance(value, list) else pkg.Color(value)
                kwargs[pyname if how == "python_name" else gname] = v
            elif given == "null":
                kwargs[pyname if how == "python_name" else gname] = None
            try:
                m = cls(**kwargs)
                rec["events"].append({"e": "constructed", "model": "built"})
            except pydantic.ValidationError as ex:
                rec["events"].append({"e": "constructed", "model": "rejected"})
                rec["reject"] = str(ex)[:200]
                results.append(rec)
                continue
            got = plain(getattr(m, pyname))
            if given == "value":
                rb = "value" if (got == value or covers(got, value)) else "wrong"
            elif given == "null":
                rb = "null" if got is None else "wrong"
            elif ref_default == "@absent":
                rb = "null" if got is None else "wrong"
            else:
                rb = "default" if (got == ref_default or strip_none(got) == strip_none(ref_default)) else "wrong"
            rec["readback_raw"] = repr(got)[:160]
            rec["ref_default"] = repr(ref_default)[:160]
            rec["events"].append({"e": "read", "readback": rb})
            d = m.model_dump(by_alias=True, exclude_unset=True)
            if gname not in d:
                dm = "absent"
            else:
                dv = plain(d[gname])
                dm = "null" if dv is None else ("value" if (dv == value or covers(dv, value)) or given != "value" else "wrong")
            rec["events"].append({"e": "dumped", "dumped": dm})
            seen.clear()
            meth = getattr(client, methods[f"q{idx}"])
            try:
                meth(i=m)
                kw = (seen.get("kw") or {}).get("i")
                if kw is None:
                    sv = "rejected"
                    rec["server_errors"] = str(seen.get("body"))[:200]
                elif gname not in kw:
                    sv = "absent"
                else:
                    x = kw[gname]
                    if given == "value":
                        sv = "value" if covers(x, value) else "wrong"
                    elif given == "null":
                        sv = "null" if x is None else "wrong"
                    else:
                        sv = "default" if x == ref_default else "wrong"
                    rec["server_raw"] = repr(x)[:160]
            except Exception as ex:  # noqa
                sv = "call_failed"
                rec["call_error"] = f"{type(ex).__name__}: {ex}"[:200]
            rec["events"].append({"e": "served", "server": sv})
        except Exception as ex:  # noqa
            rec["problem"] = f"{type(ex).__name__}: {ex}"[:300]
        results.append(rec)
    emit({"results": results})


if __name__ == "__main__":
    main()
