from gen import *
schema = '''
enum Color { RED GREEN from }
input Inner { c: Color = GREEN n: Int! = 3 }
input Big {
  req: String!
  items: [String]!
  nn: [String!]
  col: Color = RED
  obj: Inner = {c: RED, n: 1}
  objs: [Inner!] = [{n: 2}]
  nested: [[Int]] = [[1,2],[3]]
  idd: ID = 5
  fl: Float = 1
  rdef: Int! = 7
  model_config: String
  class: String
  camelCase: Int
  rec: Big
}
type Query { f(b: Big, c: Color, l: [Int]): String }
'''
q = 'query A($b: Big) { f(b: $b) }'
d, n, r = generate(schema, q); show(r)
print((d/n/"input_types.py").read_text())
try:
    m = load(d, n)
    B = m.Big
    try: print("items [None]:", B(req="x", items=[None]))
    except Exception as e: print("items [None] REJECTED:", str(e)[:200])
    b = B(req="x", items=[])
    print(repr(b))
    print(b.model_dump(by_alias=True, exclude_unset=True))
    try: print(B(items=[]))
    except Exception as e: print("missing req rejected ok")
except Exception as e:
    print("LOAD FAIL", type(e).__name__, e)
