SPECIFICATION Spec
CONSTANTS Bodies <- AllBodies
 Transports <- AllTransports
INVARIANT Nested
INVARIANT OneRequest
INVARIANT AllEnded
INVARIANT ResponseReturned
PROPERTY SentInsideSpans
CHECK_DEADLOCK FALSE
