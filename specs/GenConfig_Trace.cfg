SPECIFICATION TraceSpec
CONSTANTS Options <- Opts
 OpSets <- Sets
 MaxOn = 9
 Deviations <- AsBuilt
INVARIANT RefusalsDocumented
INVARIANT EverythingLoads
INVARIANT InitAllExact
INVARIANT ReportedEqualsWritten
CONSTRAINT Reached
POSTCONDITION Accepted
CHECK_DEADLOCK FALSE
