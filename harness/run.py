"""Dispatcher: ./bin/check C13 --tier quick"""
import argparse
import importlib
import os
import sys
import traceback

from .common import Machinery, Work


def main():
    ap = argparse.ArgumentParser()
    ap.add_argument("pid")
    ap.add_argument("--tier", default=os.environ.get("VERIF_TIER", "quick"), choices=["quick", "thorough"])
    ap.add_argument("--replay", default=None)
    a = ap.parse_args()
    pid = a.pid.upper()
    try:
        mod = importlib.import_module(f"harness.checks.{pid.lower()}")
    except ModuleNotFoundError:
        print(f"no check for {pid}", file=sys.stderr)
        sys.exit(2)
    work = Work(pid)
    try:
        rc = mod.run(a.tier, work, replay=a.replay)
    except Machinery as ex:
        print(f"MACHINERY-FAILURE property={pid}: {ex}", file=sys.stderr)
        rc = 2
    except Exception:
        traceback.print_exc()
        print(f"MACHINERY-FAILURE property={pid}: unexpected exception", file=sys.stderr)
        rc = 2
    finally:
        work.cleanup()
    sys.exit(rc)


if __name__ == "__main__":
    main()
