"""In-package driver for C15: drive every operation of a (plugged or plugin-free) package with scripted responses."""
import asyncio
import inspect
import json
import os
import sys

import httpx
import pydantic
from graphql import build_schema, graphql_sync

from .util import load_payload, emit, import_pkg
from ..universe import gamma


def dump(v):
    if isinstance(v, pydantic.BaseModel):
        return {"@model": type(v).__name__, "v": v.model_dump(by_alias=True, mode="json")}
    if isinstance(v, list):
        return [dump(x) for x in v]
    if hasattr(v, "isoformat"):          # a parsed custom scalar (datetime.date): compare in its JSON spelling
        return v.isoformat()
    return v


class FakeWS:
    def __init__(self, frames, sent):
        self.frames, self.sent, self.closed = list(frames), sent, False

    async def send(self, m):
        self.sent.append(json.loads(m))

    async def recv(self):
        return self.frames.pop(0)

    def __aiter__(self):
        return self

    async def __anext__(self):
        if self.closed or not self.frames:
            raise StopAsyncIteration
        return self.frames.pop(0)

    async def close(self, *a, **k):
        self.closed = True


def main():
    P = load_payload()
    out = {"loads": True}
    try:
        pkg = import_pkg(P["package"])
        client_mod = import_pkg(P["package"] + ".client")
    except Exception as ex:  # noqa
        emit({"loads": False, "error": f"{type(ex).__name__}: {ex}"[:400]})
        return
    schema = build_schema(P["sdl"])
    root = {"a": gamma.make_obj("A", "full"), "d": gamma.make_obj("D", "full"), "u": gamma.make_obj("D", "full"), "version": "1.0",
            "byId": gamma.make_obj("A", "full", 0, 1), "byColor": gamma.make_obj("A", "full", 0, 2), "today": "2020-02-03",
            "dates": ["2020-02-03", "2021-03-04"]}
    last = {}

    def handler(request):
        body = json.loads(request.content)
        last["body"] = body
        res = graphql_sync(schema, body["query"], root_value=root, variable_values=body.get("variables") or {})
        o = {"data": res.data}
        if res.errors:
            o["errors"] = [{"message": str(e)} for e in res.errors]
        return httpx.Response(200, json=o)
    loop = asyncio.new_event_loop()
    hc = httpx.AsyncClient(transport=httpx.MockTransport(handler))
    client = client_mod.Client(url="http://x", http_client=hc, ws_url="ws://x")
    basemod = sys.modules[client_mod.Client.__mro__[1].__module__]
    ops = {}
    for name, args in P["ops"].items():
        meth = [getattr(client, m) for m in dir(client) if m.replace("_", "").lower() == name.lower()]
        rec = {}
        if not meth:
            ops[name] = {"error": "no_method"}
            continue
        meth = meth[0]
        try:
            rec["signature"] = str(inspect.signature(meth)).replace('"', "").replace("'", "")
            last.clear()
            if name.lower().startswith("sub"):
                sent = []
                frames = [json.dumps({"type": "connection_ack"}), json.dumps({"type": "next", "payload": {"data": {"ticks": 7}}}),
                          json.dumps({"type": "next", "payload": {"data": {"ticks": 8}}}), json.dumps({"type": "complete"})]

                class Conn:
                    def __init__(self, *a, **k):
                        self.ws = FakeWS(frames, sent)

                    async def __aenter__(self):
                        return self.ws

                    async def __aexit__(self, *a):
                        return False
                basemod.ws_connect = Conn

                async def go():
                    return [x async for x in meth()]
                res = loop.run_until_complete(go())
                rec["request"] = [m.get("payload") for m in sent if m.get("type") == "subscribe"]
                rec["result"] = dump(res)
            else:
                kw = {}
                if args == "req":
                    flt = getattr(import_pkg(P["package"] + ".input_types"), "Flt")
                    col = getattr(import_pkg(P["package"] + ".enums"), "Color")
                    kw = {"c": col.RED, "f": flt(q="abc")}
                elif args:
                    flt = getattr(import_pkg(P["package"] + ".input_types"), "Flt")
                    kw = {"id": "x1", "flt": flt(q="abc")}
                res = loop.run_until_complete(meth(**kw))
                rec["request"] = last.get("body")
                rec["result"] = dump(res)
        except Exception as ex:  # noqa
            rec["error"] = f"{type(ex).__name__}: {ex}"[:300]
        ops[name] = rec
    out["ops"] = ops
    d = os.path.join(os.environ["VERIF_JOBDIR"], P["package"])
    src = open(os.path.join(d, "client.py")).read()
    init = open(os.path.join(d, "__init__.py")).read()
    out["files"] = sorted(f for f in os.listdir(d) if f.endswith(".py"))
    out["type_checking"] = "if TYPE_CHECKING" in src
    out["inline_queries"] = "gql(" in src.split("class Client")[1] if "class Client" in src else None
    out["ops_module"] = os.path.exists(os.path.join(d, "operations.py"))
    out["init_imports"] = sum(1 for ln in init.splitlines() if ln.startswith("from ") or ln.startswith("import "))
    out["init_has_ops"] = "_GQL" in init
    out["tags"] = [ln[2:].strip() for ln in init.splitlines() if ln.startswith("# tag")]
    if out["ops_module"]:
        om = import_pkg(P["package"] + ".operations")
        out["constants"] = {k: v for k, v in vars(om).items() if k.endswith("_GQL")}
    emit(out)


if __name__ == "__main__":
    main()
