----------------------------- MODULE GenConfig_MC -----------------------------
EXTENDS GenConfig, Json, IOUtils, SequencesExt
Opts == {"snake_off", "sync", "otel", "prune_inputs", "prune_enums", "custom_ops", "files_to_include", "custom_scalars", "renamed_modules"}
Sets == {"plain", "abstract_fragments", "inputs_enums", "subscription", "upload", "awkward_names", "anonymous", "colliding_file_names", "collide_exceptions", "collide_base_model", "collide_base_client", "collide_enums", "collide_include", "malformed_mixin", "mixins"}
NoDev == {}
AsBuilt == {"custom_ops_x_pruning", "custom_ops_x_renamed_inputs"}
K == IF IOEnv.MAXON = "9" THEN 9 ELSE IF IOEnv.MAXON = "3" THEN 3 ELSE 2
ConfigSeq == SetToSeq({SetToSeq(S) : S \in {X \in SUBSET Opts : Cardinality(X) <= K}})
ASSUME IOEnv.OUT_FILE = "" \/ JsonSerialize(IOEnv.OUT_FILE, ConfigSeq)
=============================================================================
