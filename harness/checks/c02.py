"""C02 -- the document sent is the document written.

(s) literal fidelity: TLC checks OpText (split -> unparse -> multiline rewrite guard -> Python evaluation) over all token
    strings up to a bound and exports them; each is concretised into real string literals (argument, variable default, list
    item / object field, block string), generated with and without ExtractOperationsPlugin, the method is called and the
    sent query is parsed, validated with the full rule set and AST-compared with the authored operation; (case, observed)
    traces are validated by OpText_Trace.
(f) fragment closure: FragmentsPkg cases (fragment DAGs, shared / unused / nested fragments, @mixin placements) are
    generated and the sent document of every operation must be the operation followed by exactly the reachable fragments,
    after undoing the two documented rewrites (automatic __typename, removal of @mixin).
"""
import json
import random
import re

from graphql import (build_schema, parse, print_ast, validate, visit, Visitor, FieldNode, FragmentSpreadNode,
                     OperationDefinitionNode, FragmentDefinitionNode, REMOVE)

from ..common import Verdict, run_tlc, tlc_must_pass, validate_traces_parallel, pmap, Machinery, seed, printed_tuples
from ..gen import write_job, generate, run_in_pkg
from ..universe import gamma

SRC = {"p": "ab", "n_": "new", "sp": " x", "hs": "#", "eqs": "=", "uni": "é", "sq": "'", "en": "\\n", "eb": "\\\\",
       "eq_": '\\"', "ue": "\\u0041", "tb": "\\t", "us": " "}
SCHEMA = "input In { k: String }\ntype Query { f(s: String, t: String): String g(l: [String], o: In): String }\n"
EXTRACT = "ariadne_codegen.contrib.extract_operations.ExtractOperationsPlugin"
MC = """SPECIFICATION Spec
CONSTANTS MaxLen = {n}
 Tokens <- AllTokens
 Deviations <- {dev}
INVARIANT LiteralPreserved
INVARIANT UnsafeNeverJoined
CHECK_DEADLOCK FALSE
"""
BLOCKS = ['"""plain block"""', '"""two\n    lines = # here"""', '"""it\'s "quoted" text"""', '"""tri \\""" inside"""', '"""back\\slash \\n kept"""',
          '"""é   sep"""']


def render_op(name, lit_src, place):
    if place == "arg":
        return f'query {name} {{ f(s: "{lit_src}") }}'
    if place == "default":
        return f'query {name}($v: String = "{lit_src}") {{ f(s: $v) }}'
    if place == "nested":
        return f'query {name} {{ g(l: ["{lit_src}", "z"], o: {{k: "{lit_src}"}}) }}'
    if place == "two":
        return f'query {name} {{ f(s: "{lit_src}", t: "{lit_src}") }}'
    raise ValueError(place)


class Strip(Visitor):
    def enter_field(self, node, *_):
        if node.name.value == "__typename":
            return REMOVE
        if node.directives:
            node.directives = tuple(d for d in node.directives if d.name.value != "mixin")
        return None

    def enter_fragment_definition(self, node, *_):
        if node.directives:
            node.directives = tuple(d for d in node.directives if d.name.value != "mixin")
        return None


def norm_defs(doc_text):
    """definitions of a document keyed by (kind, name), printed after undoing the two documented rewrites"""
    doc = visit(parse(doc_text), Strip())
    out = {}
    for d in doc.definitions:
        k = ("op" if isinstance(d, OperationDefinitionNode) else "frag", d.name.value if d.name else "")
        if k in out:
            out[("dup",) + k] = True
        out[k] = print_ast(d)
    return out


def reachable(authored_defs_ast, opname):
    frags = {d.name.value: d for d in authored_defs_ast if isinstance(d, FragmentDefinitionNode)}
    op = [d for d in authored_defs_ast if isinstance(d, OperationDefinitionNode) and d.name and d.name.value == opname][0]
    seen = set()

    def walk(node):
        class V(Visitor):
            def enter_fragment_spread(self, n, *_):
                nm = n.name.value
                if nm not in seen:
                    seen.add(nm)
                    walk(frags[nm])
        visit(node, V())
    walk(op)
    return seen


def judge_doc(v, feats, schema, authored_text, opname, body, detail):
    """the property, for one sent request"""
    if not body or "query" not in body:
        v.violation(feats, "nothing_sent", detail)
        return False
    sent = body["query"]
    if body.get("operationName") != opname:
        v.violation(feats, "operation_name_differs", dict(detail, sent_name=body.get("operationName")))
    try:
        sdoc = parse(sent)
    except Exception as ex:  # noqa
        v.violation(feats, "sent_document_does_not_parse", dict(detail, sent=sent, error=str(ex)[:200]))
        return False
    errs = validate(schema, sdoc)
    if errs:
        v.violation(feats, "sent_document_invalid", dict(detail, sent=sent, errors=[e.message for e in errs][:4]))
    ops = [d for d in sdoc.definitions if isinstance(d, OperationDefinitionNode)]
    if len(ops) != 1:
        v.violation(feats, "not_a_single_operation", dict(detail, sent=sent))
    adoc = parse(authored_text)
    want_frags = reachable(adoc.definitions, opname)
    a = norm_defs(authored_text)
    s = norm_defs(sent)
    want = {("op", opname): a[("op", opname)]}
    for f in want_frags:
        want[("frag", f)] = a[("frag", f)]
    if set(s) != set(want):
        v.violation(feats, "fragment_set_differs", dict(detail, sent_defs=sorted(map(str, s)), expected_defs=sorted(map(str, want))))
        return False
    diff = [k for k in want if s[k] != want[k]]
    if diff:
        v.violation(feats, "ast_differs", dict(detail, where=str(diff[0]), sent=s[diff[0]], authored=want[diff[0]]))
        return False
    return True


def run(tier, work, replay=None):
    v = Verdict("C02", tier)
    q = tier == "quick"
    schema = build_schema(SCHEMA)
    # ---- (s) leg 1
    out = work.dir / "lits.json"
    res = run_tlc("OpText_MC", MC.format(n=3 if q else 4, dev="Fixed"), work.sub("tlc"), env={"OUT_FILE": str(out)}, workers=8, coverage=q)
    tlc_must_pass(res, "OpText_MC")
    v.add_tlc(res, f"OpText, all token strings up to {3 if q else 4}")
    for dev in ("Historical", "Seeded"):
        r2 = run_tlc("OpText_MC", MC.format(n=2, dev=dev), work.sub("tlc"), env={"OUT_FILE": str(work.dir / "x.json")}, workers=2)
        if not r2.invariant_violated:
            raise Machinery(f"anti-vacuity: deviation {dev} does not violate the OpText invariants")
    lits = json.loads(out.read_text())
    rnd = random.Random(seed())
    places = ["arg", "default", "nested", "two"]
    items = []
    for i, lit in enumerate(lits):
        place = places[i % 4] if len(lit) > 1 else "arg"
        items.append({"name": f"L{i}", "lit": lit, "place": place, "src": "".join(SRC[t] for t in lit)})
    for j, b in enumerate(BLOCKS):
        items.append({"name": f"B{j}", "lit": None, "place": "block", "src": b})
    batches = [items[i:i + 150] for i in range(0, len(items), 150)]
    variants = [("plain", {}), ("extract", {"plugins": [EXTRACT]})]

    def one(t):
        bi, batch, (vname, vopts) = t
        texts = {}
        for it in batch:
            texts[it["name"]] = (f'query {it["name"]} {{ f(s: {it["src"]}) }}' if it["place"] == "block" else render_op(it["name"], it["src"], it["place"]))
        job = write_job(work.dir / f"job_s_{vname}_{bi}", schema=SCHEMA, queries="\n\n".join(texts.values()) + "\n", package="gclient",
                        options=dict({"async_client": False}, **vopts))
        r = generate(job)
        if r["exc_class"]:
            return t, texts, r, None
        try:
            o = run_in_pkg(job, "harness.pkg.capture", {"package": "gclient", "ops": list(texts), "operations_module": "operations" if vname == "extract" else None})
        except Machinery as ex:
            return t, texts, {"exc_class": "PackageImport", "exc_msg": str(ex)[-500:]}, None
        src = (job / "gclient" / ("operations.py" if vname == "extract" else "client.py")).read_text()
        o["joined"] = {}
        for it in batch:
            o["joined"][it["name"]] = "unknown"
        return t, texts, r, o

    tasks = [(bi, b, var) for bi, b in enumerate(batches) for var in variants]
    outs = pmap(one, tasks)
    traces, owners = [], []
    n_eval = 0
    for (bi, batch, (vname, _)), texts, r, o in outs:
        if o is None:
            # isolate: report once per batch (generation must not die on any valid literal)
            v.violation({"part": "literals", "variant": vname, "batch": bi}, f"gen_crash:{r['exc_class']}", {"message": r["exc_msg"], "ops": list(texts)[:5]})
            continue
        for it in batch:
            n_eval += 1
            rec = o["ops"].get(it["name"], {})
            feats = {"part": "literals", "variant": vname, "place": it["place"], "tokens": it["lit"]}
            ok = judge_doc(v, feats, schema, texts[it["name"]], it["name"], rec.get("body"), {"authored": texts[it["name"]]})
            if vname == "extract":
                const = [val for k, val in o["constants"].items() if k.replace("_", "").lower() == (it["name"] + "gql").lower()]
                if not const or (rec.get("body") and const[0] != rec["body"].get("query")):
                    v.violation(feats, "extracted_constant_differs_from_sent", {"authored": texts[it["name"]]})
            if it["lit"] is not None:
                traces.append([{"e": "case", "lit": it["lit"]}, {"e": "observed", "text": it["lit"] if ok else ["ALTERED"], "joined": "unknown"}])
                owners.append(feats)
    # ---- (f) fragment closure over FragmentsPkg cases
    from .c08 import cfg as fcfg, cases_from, render_case
    fr = run_tlc("FragmentsPkg_MC", fcfg(3, 1, 1, "NoDeviations", export=1200 if q else 150, invs=["DocIsClosure"], perms="TwoPerms"), work.sub("tlcf"), workers=8, timeout=3000)
    tlc_must_pass(fr, "FragmentsPkg (DocIsClosure)")
    v.add_tlc(fr, "FragmentsPkg exhaustive NF=3 (DocIsClosure)")
    fr2 = run_tlc("FragmentsPkg_MC", fcfg(2, 2, 1, "NoDeviations", export=400 if q else 60, invs=["DocIsClosure"], perms="TwoPerms"), work.sub("tlcf2"), workers=8, timeout=3000)
    tlc_must_pass(fr2, "FragmentsPkg (DocIsClosure) NF=2, two operations")
    v.add_tlc(fr2, "FragmentsPkg exhaustive NF=2 x 2 operations (DocIsClosure)")
    fdev = run_tlc("FragmentsPkg_MC", fcfg(3, 1, 1, "OldClosure", invs=["DocIsClosure"], perms="TwoPerms"), work.sub("tlcf"), workers=4, timeout=3000)
    if "DocIsClosure" not in fdev.invariant_violated:
        raise Machinery("anti-vacuity: the old closure computation does not violate DocIsClosure")
    fcases = cases_from(fr) + cases_from(fr2)
    uschema = build_schema(gamma.SDL)

    def fone(ci):
        c = fcases[ci]
        mix = ("frag", 1 + ci % len(c["defs"])) if ci % 3 == 0 else (("field", 1, 1) if ci % 3 == 1 else None)
        perm = None
        qtext = render_case(c["defs"], c["ops"], perm, mix, c["nm"])
        job = write_job(work.dir / f"job_f_{ci}", schema=gamma.SDL, queries=qtext, package="gclient",
                        options={"async_client": False, "files_to_include": ["mixins_mod.py"]},
                        files={"mixins_mod.py": "class MixinF:\n    pass\n\n\nclass MixinO:\n    pass\n"})
        r = generate(job)
        o = None
        if r["exc_class"] is None:
            try:
                o = run_in_pkg(job, "harness.pkg.capture", {"package": "gclient", "ops": [f"Op{k}" for k in range(1, len(c["ops"]) + 1)], "data": None})
            except Machinery as ex:
                r = {"exc_class": "PackageImport", "exc_msg": str(ex)[-400:]}
        import shutil
        shutil.rmtree(job, ignore_errors=True)
        return ci, qtext, r, o

    for ci, qtext, r, o in pmap(fone, range(len(fcases))):
        feats = {"part": "fragments", "case": ci}
        if o is None:
            v.violation(feats, f"gen_crash:{r['exc_class']}", {"queries": qtext, "message": r["exc_msg"]})
            continue
        for name, rec in o["ops"].items():
            n_eval += 1
            judge_doc(v, feats, uschema, qtext, name, rec.get("body"), {"queries": qtext})
    # ---- (d) directives, aliases, nested selections: the operations of the ResultModel universe (conditional fields, inline
    #          fragments and spreads, fragments shared between the operations of ONE queries file, in file order)
    from .. import resultcore as rc
    uops1, ur1 = rc.enumerate_ops(work, 1, "AllRoots", True, invs=False)
    uops2, ur2 = rc.enumerate_ops(work, 2, "AllRoots", True, invs=False)
    v.add_tlc(ur2, "ResultModel!Ops (operation universe, enumeration only)")
    rnd2 = random.Random(seed() + 5)
    interesting = [op for op in uops2 if gamma.features(op)["cond_fragment"] or gamma.features(op)["cond_field"] or gamma.features(op)["alias"]]
    rnd2.shuffle(interesting)
    uops = uops1 + interesting[: (250 if q else 3000)]
    rnd2.shuffle(uops)          # a conditional and an unconditional user of one fragment end up in one file, in either order
    uitems = rc.name_ops(uops)
    good, failed = rc.generate_batches(work, uitems, {"async_client": False}, batch=25, tag="c2d_")
    for it, r in failed:
        pass                    # generation failures of universe operations are C01's / C04's business (known findings there)

    def done(gb):
        job, items_ = gb
        o = run_in_pkg(job, "harness.pkg.capture", {"package": "gclient", "ops": [it["name"] for it in items_], "data": None,
                                                    "args": {"inc": True, "skp": False}})
        return job, items_, o
    for job, items_, o in pmap(done, good):
        authored = gamma.render_queries([(it["name"], it["op"]) for it in items_])
        for it in items_:
            n_eval += 1
            rec = o["ops"].get(it["name"], {})
            feats = dict(gamma.features(it["op"]), part="universe")
            judge_doc(v, feats, uschema, authored, it["name"], rec.get("body"), {"operation": gamma.render_op(it["name"], it["op"])})
    v.cov["universe_operations"] = len(uitems)
    # ---- (l) variables named like the locals of the generated method (query, variables, data, response ...), for queries,
    #          mutations AND subscriptions (the document reaches the transport through a local variable of the method)
    lsdl = ("type Query { f(query: String, variables: String, data: String, response: String, operation_name: String): String }\n"
            "type Mutation { m(query: String, variables: String): String }\ntype Subscription { s(query: String, variables: String, data: String): String }\n")
    lq = ("query QLocals($query: String, $variables: String, $data: String, $response: String, $operation_name: String) "
          "{ f(query: $query, variables: $variables, data: $data, response: $response, operation_name: $operation_name) }\n"
          "mutation MLocals($query: String, $variables: String) { m(query: $query, variables: $variables) }\n"
          "subscription SLocals($query: String, $variables: String, $data: String) { s(query: $query, variables: $variables, data: $data) }\n"
          "subscription SQueryOnly($query: String!) { s(query: $query) }\nsubscription SPlain { s }\n")
    lschema = build_schema(lsdl)
    for vname, plugins in (("plain", []), ("extract", [EXTRACT])):
        job = write_job(work.dir / f"job_l_{vname}", schema=lsdl, queries=lq, package="gclient", options={"async_client": True, "plugins": plugins})
        r = generate(job)
        feats = {"part": "locals", "variant": vname}
        if r["exc_class"]:
            v.violation(feats, f"gen_crash:{r['exc_class']}", {"message": r["exc_msg"]})
            continue
        o = run_in_pkg(job, "harness.pkg.capture", {"package": "gclient", "ops": ["QLocals", "MLocals", "SLocals", "SQueryOnly", "SPlain"], "data": None, "async": True,
                                                    "subscriptions": True, "args": {"query": "cats and dogs"}})
        for name in ("QLocals", "MLocals", "SLocals", "SQueryOnly", "SPlain"):
            n_eval += 1
            judge_doc(v, dict(feats, operation=name), lschema, lq, name, o["ops"].get(name, {}).get("body"), {"operation": name, "record": o["ops"].get(name)})
    # ---- (m) @mixin in every position the generator supports: on an operation field, a nested field, a field inside an inline
    #          fragment, a field inside an inline fragment of a fragment, a fragment definition -- all must be stripped
    mq = ('query MixOp { a @mixin(from: ".mixins_mod", import: "MixinO") { id friend @mixin(from: ".mixins_mod", import: "MixinF") { id } '
          '... on A { friend2: friend @mixin(from: ".mixins_mod", import: "MixinO") { name } } } }\n'
          'query MixUnion { u { ...MixU } }\n'
          'fragment MixU on U @mixin(from: ".mixins_mod", import: "MixinF") { ... on D { owner @mixin(from: ".mixins_mod", import: "MixinO") { id } } ... on A { a1 } }\n')
    for vname, plugins in (("plain", []), ("extract", [EXTRACT])):
        job = write_job(work.dir / f"job_m_{vname}", schema=gamma.SDL, queries=mq, package="gclient",
                        options={"async_client": False, "plugins": plugins, "files_to_include": ["mixins_mod.py"]},
                        files={"mixins_mod.py": "class MixinF:\n    pass\n\n\nclass MixinO:\n    pass\n"})
        r = generate(job)
        feats = {"part": "mixin_positions", "variant": vname}
        if r["exc_class"]:
            v.violation(feats, f"gen_crash:{r['exc_class']}", {"message": r["exc_msg"]})
            continue
        o = run_in_pkg(job, "harness.pkg.capture", {"package": "gclient", "ops": ["MixOp", "MixUnion"], "data": None})
        for name in ("MixOp", "MixUnion"):
            n_eval += 1
            body = o["ops"].get(name, {}).get("body")
            judge_doc(v, dict(feats, operation=name), uschema, mq, name, body, {"operation": name})
            if body and "@mixin" in (body.get("query") or ""):
                v.violation(dict(feats, operation=name), "mixin_directive_sent", {"sent": body.get("query")})
    # ---- (e) the repository's own example projects: every operation of every project, as its authors wrote it
    from .. import corpus
    import tomllib

    def cone(proj):
        job = work.dir / ("c2e_" + proj["name"].replace(":", "_"))
        cfgname, target = corpus.stage(job, proj, comments=None)
        sec = tomllib.loads((job / proj["config"]).read_text()).get("tool", {}).get("ariadne-codegen", {})
        qp = job / sec.get("queries_path", "")
        if not sec.get("queries_path") or not qp.is_file() or sec.get("base_client_file_path"):
            return proj, None
        authored = qp.read_text()
        ops_ = [d.name.value for d in parse(authored).definitions if isinstance(d, OperationDefinitionNode) and d.name and d.operation.value != "subscription"]
        r = generate(job, "client", config=cfgname)
        if r["exc_class"]:
            return proj, {"gen": r["exc_class"]}
        try:
            o = run_in_pkg(target.parent, "harness.pkg.capture", {"package": target.name, "ops": ops_, "data": None, "async": sec.get("async_client", True),
                                                                  "client_name": sec.get("client_name")})
        except Machinery as ex:
            return proj, {"driver": str(ex)[-300:]}
        return proj, {"authored": authored, "schema": (job / sec.get("schema_path", "schema.graphql")).read_text(), "ops": ops_, "o": o}
    n_corpus_ops = 0
    for proj, res_ in pmap(cone, [pj for pj in corpus.projects() if pj["strategy"] == "client"]):
        if not res_ or "authored" not in res_:
            continue            # no queries file / custom base client / does not generate here: other checks' business
        cschema = build_schema(res_["schema"], assume_valid=True)      # some example schemas have no Query root
        for name in res_["ops"]:
            rec = res_["o"]["ops"].get(name, {})
            if not rec.get("body"):
                continue        # the capture driver could not call the method with placeholder arguments
            n_corpus_ops += 1
            n_eval += 1
            judge_doc(v, {"part": "corpus", "corpus": proj["name"], "operation": name}, cschema, res_["authored"], name, rec.get("body"), {"project": proj["name"]})
    v.cov["corpus_operations"] = n_corpus_ops
    v.cov["evaluations"] = n_eval
    rs, rejected, inv = validate_traces_parallel("OpText_Trace", "OpText_Trace.cfg", traces, work.sub("tv"), chunk_size=2500)
    for r3 in rs:
        v.add_tlc(r3, "OpText_Trace")
    bad = set(rejected) | {t for _, t in inv if t is not None}
    for t in sorted(bad):
        why = [i for i, tt in inv if tt == t]
        v.violation(owners[t], "trace_rejected:" + (",".join(why) or "observed"), {"trace": traces[t]})
    v.cov["traces_validated_against_impl"] = len(traces) - len(bad)
    v.cov["distinct_nontrivial"] = len([1 for it in items if it["lit"] is None or any(t != "p" for t in it["lit"])]) + len(fcases)
    v.cov["rule"] = ("literals = all token strings up to the bound over a 13-token alphabet (plain, leading space, '#', '=', raw non-ASCII, "
                     "single quote, the escapes \\n \\\\ \\\" \\uXXXX \\t, raw U+2028), placed as argument / variable default / list item + "
                     "object field / twice on a line, plus block strings; fragment cases = FragmentsPkg terminal states (sampled); "
                     "non-trivial = a literal with a token other than plain text, or a document with fragment definitions")
    v.cov["exhaustive"] = True
    for k in (1, len(traces) // 2, len(traces) - 1):
        v.sample({"tokens": traces[k][0]["lit"], "graphql_literal": '"' + "".join(SRC[t] for t in traces[k][0]["lit"]) + '"', "observed": traces[k][1]})
    v.assumptions += ["graphql-core parse / validate / print_ast are the reference for syntax, validity and AST equality",
                      "each token class is represented by one concrete spelling"]
    return v.finish()
