SPECIFICATION TraceSpec
CONSTANTS NDefs = 5
 Files <- ThreeFiles
 Deviations <- AsBuilt
INVARIANT ClientSameK
CONSTRAINT Reached
POSTCONDITION Accepted
CHECK_DEADLOCK FALSE
