--------------------------- MODULE Pipeline_Trace ---------------------------
(* Trace validation for Pipeline: one real CLI run (subprocess, audit hook) logged as                                  *)
(*     case(v, target0)   touch(what)*   end(err, reported, changed)                                                    *)
(* Phases that leave no observable event are silent steps of the spec; a file-system event under the target is only     *)
(* explainable by the mkdir / write phases, i.e. after every check has passed.                                          *)
EXTENDS Pipeline, Json, IOUtils

Traces == JsonDeserialize(IOEnv.TRACE_FILE)
N == Len(Traces)
ASSUME \A t \in 1..N : TLCSet(t, 0)

VARIABLES tid, l
tvars == <<vars, tid, l>>
Ev == Traces[tid][l]
Has == l <= Len(Traces[tid])

TraceInit ==
  /\ tid \in 1..N /\ l = 2
  /\ v = Traces[tid][1].v /\ target0 = Traces[tid][1].target0
  /\ pc = 1 /\ touched = FALSE /\ err = "none" /\ reported = FALSE

\* a phase without a file-system effect (or one that raises)
T_Silent == /\ Step /\ touched' = touched /\ l' = l /\ tid' = tid
\* the first observed effect is the step into mkdir / write; further events of the same phases stutter
T_Touch ==
  /\ Has /\ Ev.e = "touch" /\ l' = l + 1 /\ tid' = tid
  /\ \/ (Step /\ touched')
     \/ (touched /\ UNCHANGED vars)
T_End ==
  /\ Has /\ Ev.e = "end" /\ l' = l + 1 /\ tid' = tid
  /\ Done /\ Ev.err = err /\ Ev.changed = touched /\ Ev.reported = reported
  /\ UNCHANGED vars

TraceNext == T_Silent \/ T_Touch \/ T_End
TraceSpec == TraceInit /\ [][TraceNext]_tvars

Reached == TLCSet(tid, IF l > TLCGet(tid) THEN l ELSE TLCGet(tid))
Accepted ==
  LET bad == {t \in 1..N : TLCGet(t) # Len(Traces[t]) + 1} IN
  /\ \A t \in bad : PrintT(<<"REJECTED", t, TLCGet(t)>>)
  /\ bad = {}
=============================================================================
