---------------------------- MODULE FragmentsPkg ----------------------------
(* C08 (and the fragment parts of C02, C04, C10): how named fragments become base classes.    *)
(* Code: result_types._resolve_selection_set / _unpack_fragment, package.add_operation,       *)
(* package._generate_fragments, fragments.FragmentsGenerator.generate / _get_sorted_...        *)
(* State = the accumulators of PackageGenerator and FragmentsGenerator; one action per phase.  *)
EXTENDS Naturals, Sequences, FiniteSets, TLC, FiniteSetsExt, SequencesExt

CONSTANTS NF,            \* number of named fragments F1..FNF (Fi may only spread Fj with j < i: all DAGs up to naming;
                         \* the NAMES -- which decide every sorted() in the generator -- are the separate variable nm)
          MaxOps,        \* operations in the queries file
          MaxFields,     \* root fields per operation
          NamePerms,     \* the namings explored: a set of permutations of Frags (all of them, or identity + reverse for NF = 4)
          Deviations     \* subset of {"exclude_all_unpacked", "no_dep_closure", "set_iteration"}: pre-fix behaviours

\* interface J, interface I implements J, objects A and B implement I & J.  Fields have type J, I or A; a fragment may also
\* be on B -- inside a field of type A it can never apply, yet it is part of every document that reaches it
Types == {"J", "I", "A", "B"}
FieldTypes == {"J", "I", "A"}
Sup == [J |-> {"J"}, I |-> {"I", "J"}, A |-> {"A", "I", "J"}, B |-> {"B", "I", "J"}]      \* type conditions an instance position of T satisfies
IsAbstract(T) == T \in {"J", "I"}
StrictSub(S, T) == S # T /\ T \in Sup[S]
Frags == 1..NF
Perms(S) == {p \in [1..Cardinality(S) -> S] : \A i, j \in 1..Cardinality(S) : i # j => p[i] # p[j]}

\* a fragment definition: its type condition, whether its selection set contains an inline fragment (on A),
\* the fragments it spreads directly
\* validation rule PossibleFragmentSpreads: a fragment may be spread where its type condition can apply to some object
Poss == [J |-> {"A", "B"}, I |-> {"A", "B"}, A |-> {"A"}, B |-> {"B"}]
Overlap(S, T) == Poss[S] \cap Poss[T] # {}
FragDefs == {d \in [Frags -> [on : Types, inl : BOOLEAN, spreads : SUBSET Frags]] :
               \A f \in Frags : /\ (d[f].inl => Overlap(d[f].on, "A"))            \* its inline fragment is "... on A"
                                /\ \A g \in d[f].spreads : g < f /\ Overlap(d[f].on, d[g].on)}
\* an operation: a sequence of root fields, each [T: type of the field, fs: fragments spread directly in its selection set]
\* wrap: the spreads sit inside an inline fragment on an interface the field's type implements ("... on I { ...F }" in a field of
\* type A): the selection is then EVALUATED for I although the class is generated for A
Fields == {x \in [T : FieldTypes, fs : (SUBSET Frags) \ {{}}, wrap : {"-", "I", "J"}] : x.wrap # "-" => x.T = "A"}
EvalT(fld) == IF fld.wrap = "-" THEN fld.T ELSE fld.wrap
OpsOf == UNION {[1..n -> Fields] : n \in 1..MaxFields}

VARIABLES defs, ops,          \* the input (fixed by Init)
          nm,                 \* nm[f] = alphabetical rank of the NAME of fragment f (a permutation of Frags, fixed by Init)
          phase,              \* "adding" | "generated"
          done,               \* operations processed by add_operation
          unpacked, mixins,   \* PackageGenerator._unpacked_fragments / _fragments_used_as_mixins
          opBases,            \* per processed operation: per field: per generated class type: fragment bases
          names, deps, order, module    \* FragmentsGenerator: generated names, dependency dict, class order, classes
vars == <<defs, ops, nm, phase, done, unpacked, mixins, opBases, names, deps, order, module>>

\* ---- result_types: mixin-or-unpack decision for one spread evaluated for a class of type T ----------
Unpacks(d, T) == d.inl \/ d.on # T                                    \* _unpack_fragment(fragment_def, root_type_def)
Applies(d, T) == d.on = T \/ (IsAbstract(d.on) /\ d.on \in Sup[T])    \* the elif in _resolve_selection_set
\* R = the type the selection set is evaluated for, C = the type the class is generated for (R # C only under a wrap)
RECURSIVE Resolve2(_, _, _, _)
Resolve2(D, R, C, f) ==
  LET d == D[f] IN
  IF ~Unpacks(d, R) THEN [mix |-> {f}, unp |-> {}]
  ELSE IF Applies(d, R) \/ d.on = C
       THEN LET R2 == IF d.on = C THEN C ELSE R
                subs == {Resolve2(D, R2, C, g) : g \in d.spreads} IN
            [mix |-> UNION {s.mix : s \in subs}, unp |-> {f} \cup UNION {s.unp : s \in subs}]
       ELSE [mix |-> {}, unp |-> {}]
Resolve(D, T, f) == Resolve2(D, T, T, f)
\* fragments reachable through spreads
RECURSIVE Reach(_, _)
Reach(D, f) == {f} \cup UNION {Reach(D, g) : g \in D[f].spreads}
\* classes generated for a field: its own type, plus one per type condition of a fragment on a strict sub-type that is
\* spread directly (get_fragments_on_subtype) or of an inline fragment found through spreads (always "on A" here)
ClassTypes(D, fld) ==
  {fld.T} \cup (IF IsAbstract(fld.T)
                THEN {D[f].on : f \in {g \in fld.fs : StrictSub(D[g].on, fld.T)}}
                     \cup (IF \E f \in fld.fs : \E g \in Reach(D, f) : D[g].inl THEN {"A"} ELSE {})
                ELSE {})
FieldRes(D, fld) == [ct \in ClassTypes(D, fld) |->
                       LET rs == {(IF fld.wrap = "-" THEN Resolve(D, ct, f) ELSE Resolve2(D, fld.wrap, ct, f)) : f \in fld.fs} IN
                       [mix |-> UNION {r.mix : r \in rs}, unp |-> UNION {r.unp : r \in rs}]]

\* ---- actions ------------------------------------------------------------------------------------------
Init ==
  /\ defs \in FragDefs
  /\ nm \in NamePerms
  /\ ops \in {o \in UNION {[1..n -> OpsOf] : n \in 1..MaxOps} :
               \A k \in DOMAIN o : \A i \in DOMAIN o[k] : \A f \in o[k][i].fs : Overlap(EvalT(o[k][i]), defs[f].on)}
  /\ phase = "adding" /\ done = 0 /\ unpacked = {} /\ mixins = {} /\ opBases = <<>>
  /\ names = {} /\ deps = <<>> /\ order = <<>> /\ module = {}

\* PackageGenerator.add_operation(definition)
AddOperation ==
  /\ phase = "adding" /\ done < Len(ops)
  /\ LET o == ops[done + 1]
         res == [i \in 1..Len(o) |-> FieldRes(defs, o[i])] IN
     /\ unpacked' = unpacked \cup UNION {UNION {res[i][ct].unp : ct \in DOMAIN res[i]} : i \in 1..Len(o)}
     /\ mixins' = mixins \cup UNION {UNION {res[i][ct].mix : ct \in DOMAIN res[i]} : i \in 1..Len(o)}
     /\ opBases' = Append(opBases, [i \in 1..Len(o) |-> [ct \in DOMAIN res[i] |-> res[i][ct].mix]])
  /\ done' = done + 1
  /\ UNCHANGED <<defs, ops, nm, phase, names, deps, order, module>>

\* fragment F generated as a class of its own: bases = the fragments it uses as mixins
HasClass(D, f) == ~D[f].inl
OwnDeps(D, f) == IF ~HasClass(D, f) THEN {} ELSE UNION {Resolve(D, D[f].on, g).mix : g \in D[f].spreads}
\* FragmentsGenerator.generate: work list closed under dependencies (unless the pre-fix deviation is on)
RECURSIVE Close(_, _)
Close(D, S) == LET more == UNION {OwnDeps(D, f) : f \in S} \ S IN IF more = {} THEN S ELSE Close(D, S \cup more)
\* _get_sorted_fragments_names: DFS from the sorted roots; dependencies visited in sorted order
ByName(a, b) == nm[a] < nm[b]           \* sorted() of fragment names
RECURSIVE Visit(_, _, _, _)
Visit(D, S, f, acc) ==     \* acc = order so far (a sequence without duplicates)
  IF f \in Range(acc) \/ f \notin S THEN acc
  ELSE LET ds == SetToSortSeq(OwnDeps(D, f) \cap S, ByName)
           RECURSIVE Go(_, _)
           Go(k, a) == IF k > Len(ds) THEN a ELSE Go(k + 1, Visit(D, S, ds[k], a)) IN
       Append(Go(1, acc), f)
SortedOrder(D, S) ==
  LET roots == SetToSortSeq(S, ByName)
      RECURSIVE Go(_, _)
      Go(k, a) == IF k > Len(roots) THEN a ELSE Go(k + 1, Visit(D, S, roots[k], a)) IN
  Go(1, <<>>)
\* any order a DFS with arbitrary iteration order of the dependency SET can produce (pre-fix): all linear extensions
\* reachable by DFS = here simply: every permutation of S that respects deps is over-approximated by topological orders
TopoOrders(D, S) == {p \in Perms(S) : \A i, j \in 1..Len(p) : p[j] \in OwnDeps(D, p[i]) => j < i}

\* PackageGenerator._generate_fragments + FragmentsGenerator.generate
GenerateFragments ==
  /\ phase = "adding" /\ done = Len(ops)
  /\ LET exclude == IF "exclude_all_unpacked" \in Deviations THEN unpacked ELSE unpacked \ mixins
         n0 == Frags \ exclude
         n == IF n0 = {} THEN {} ELSE IF "no_dep_closure" \in Deviations THEN n0 ELSE Close(defs, n0) IN
     /\ names' = n
     /\ deps' = [f \in n |-> OwnDeps(defs, f)]
     /\ module' = {f \in n : HasClass(defs, f)}
     /\ order' \in (IF "set_iteration" \in Deviations
                    THEN {SelectSeq(p, LAMBDA f : HasClass(defs, f)) : p \in TopoOrders(defs, n)}
                    ELSE {SelectSeq(SortedOrder(defs, n), LAMBDA f : HasClass(defs, f))})
  /\ phase' = "generated"
  /\ UNCHANGED <<defs, ops, nm, done, unpacked, mixins, opBases>>

Next == AddOperation \/ GenerateFragments
Spec == Init /\ [][Next]_vars

\* ---- properties ---------------------------------------------------------------------------------------
AllOpBases == UNION {UNION {UNION {opBases[k][i][ct] : ct \in DOMAIN opBases[k][i]} : i \in DOMAIN opBases[k]} : k \in DOMAIN opBases}
\* every fragment some generated class inherits from is defined in the fragments module, whatever other operations do
MixinClassExists ==
  phase = "generated" => /\ AllOpBases \subseteq module
                         /\ \A f \in module : OwnDeps(defs, f) \subseteq module
\* fragment classes are defined before their dependants (so the module loads)
DepsBeforeDependants ==
  phase = "generated" => \A i, j \in 1..Len(order) : order[j] \in OwnDeps(defs, order[i]) => j < i
OrderIsModule == phase = "generated" => Range(order) = module /\ Len(order) = Cardinality(module)
\* C08 (a): a fragment without inline fragments spread where it is defined on exactly the evaluated type is a base
DirectSpreadIsBase ==
  \A k \in DOMAIN opBases : \A i \in DOMAIN opBases[k] :
     LET fld == ops[k][i] IN
     \A f \in fld.fs : (~defs[f].inl /\ defs[f].on = EvalT(fld)) => f \in opBases[k][i][fld.T]
\* the statement read strictly: the object returned for ANY runtime type is an instance of the fragment's class.
\* As built, the extra class generated for a sub-type (because another fragment or an inline fragment narrows the
\* position) unpacks the fragment instead of inheriting from it: deviation "subtype_class_unpacks" (known finding F24)
StrictOrKnown ==
  \A k \in DOMAIN opBases : \A i \in DOMAIN opBases[k] :
     LET fld == ops[k][i] IN
     \A f \in fld.fs : (~defs[f].inl /\ defs[f].on = EvalT(fld)) =>
        \A ct \in DOMAIN opBases[k][i] : f \in opBases[k][i][ct] \/ ct # fld.T
\* C02 (f): the fragment definitions sent with operation k = exactly the fragments reachable from it by spreads.
\* As fixed the closure is computed from the operation's text; the old computation used the accumulators
\* (fragments used as mixins, what those reach, and the unpacked ones) and missed fragments that contribute nothing
\* to the generated classes (deviation "old_closure")
SpreadsOf(o) == UNION {o[i].fs : i \in DOMAIN o}
ReachOp(D, o) == UNION {Reach(D, f) : f \in SpreadsOf(o)}
SentFragments(D, o) ==
  IF "old_closure" \in Deviations
    THEN LET res == [i \in DOMAIN o |-> FieldRes(D, o[i])]
             mx == UNION {UNION {res[i][ct].mix : ct \in DOMAIN res[i]} : i \in DOMAIN o}
             un == UNION {UNION {res[i][ct].unp : ct \in DOMAIN res[i]} : i \in DOMAIN o} IN
         IF mx \cup un = {} THEN {} ELSE mx \cup UNION {Reach(D, f) : f \in mx} \cup un
    ELSE ReachOp(D, o)
DocIsClosure == \A k \in DOMAIN ops : SentFragments(defs, ops[k]) = ReachOp(defs, ops[k])
\* accumulators only grow while operations are added
Monotone == [][unpacked \subseteq unpacked' /\ mixins \subseteq mixins']_vars
=============================================================================
