"""X01 (beyond the listed properties) -- the span structure emitted by the OpenTelemetry base clients.

leg 1: TLC checks Telemetry (WsProtocol + the tracer as a second observer: RootLifecycle, OneSpanPerFrame, SpanOrder,
       ExcOnlyWhereRaised) and TelemetryHttp (Nested, OneRequest, AllEnded, ResponseReturned, SentInsideSpans).
leg 2: TLC exports frame sequences with the predicted spans; each is replayed into the real async OpenTelemetry client
       with a recording tracer; execute() of the sync and async clients is driven for json / multipart x response /
       transport error.
leg 3: the recorded span logs are validated by Telemetry_Trace / TelemetryHttp_Trace.
Not registered in MANIFEST.json (no listed property states this); evidence goes to evidence/extra/X01.json.
"""
import json

from ..common import Verdict, run_tlc, tlc_must_pass, validate_traces_parallel, validate_traces, pmap, Machinery, printed_tuples
from ..gen import write_job, generate, run_in_pkg
from .c13 import SCHEMA, QUERY

SCHEMA_X = SCHEMA.replace("type Query { x: Int }", "scalar Upload\nscalar X\ntype Query { x: Int f(a: X, u: X): Int }")
WS_CFG = """SPECIFICATION TSpec
CONSTANTS MaxFrames = {n}
 Kinds <- AllKinds
 InitPayloads <- BothPayloads
 VarModes <- AllVarModes
 SampleOneIn <- {sample}
INVARIANT RootLifecycle
INVARIANT OneSpanPerFrame
INVARIANT SpanOrder
INVARIANT ExcOnlyWhereRaised
INVARIANT TerminalMapping
{export}CHECK_DEADLOCK FALSE
"""


def run(tier, work, replay=None):
    v = Verdict("X01", tier)
    q = tier == "quick"
    r1 = run_tlc("Telemetry_MC", WS_CFG.format(n=3 if q else 4, sample="Sample40" if q else "Sample400", export="INVARIANT Export\n"),
                 work.sub("tlc"), workers=8, timeout=3000, coverage=q)
    tlc_must_pass(r1, "Telemetry_MC")
    v.add_tlc(r1, "Telemetry: WsProtocol with the tracer as second observer")
    r2 = run_tlc("TelemetryHttp_MC", "TelemetryHttp_MC.cfg", work.sub("tlc2"), workers=2, timeout=600)
    tlc_must_pass(r2, "TelemetryHttp_MC")
    v.add_tlc(r2, "TelemetryHttp")
    pred = {}
    for t in printed_tuples(r1.out, "S"):
        _, inbox, payload, vmode, spans, root = t
        pred[(tuple(inbox), payload, vmode)] = {"spans": [[s[0], sorted(s[1]), s[2]] for s in spans], "root": root}
    if len(pred) < 100:
        raise Machinery(f"export too small: {len(pred)}")
    ws_cases = [{"inbox": list(k[0]), "payload": k[1], "vars": k[2], "via": "execute_ws", "client": "otel_tracer", "extra": False} for k in pred]
    http_cases = [[b, t] for b in ("json", "multipart") for t in ("response", "response_500", "transport_error")]
    outs = {}
    for name, is_async in (("async_otel", True), ("sync_otel", False)):
        job = write_job(work.dir / f"job_{name}", schema=SCHEMA_X, queries=QUERY if is_async else "query Q { x }\n", package="gclient",
                        options={"async_client": is_async, "opentelemetry_client": True})
        r = generate(job)
        if r["exc_class"]:
            v.violation({"client": name, "stage": "generate"}, f"gen_crash:{r['exc_class']}", r["exc_msg"])
            return v.finish()
        outs[name] = run_in_pkg(job, "harness.pkg.telemetry", {"package": "gclient", "async": is_async, "http_cases": http_cases,
                                                              "ws_cases": ws_cases if is_async else []}, timeout=3000)
    # ---- subscriptions
    traces, owners = [], []
    for case, o in zip(ws_cases, outs["async_otel"]["ws"]):
        feats = {"client": "async_otel", "inbox": case["inbox"], "payload": case["payload"], "vars": case["vars"], "part": "ws"}
        want = pred[(tuple(case["inbox"]), case["payload"], case["vars"])]
        got = [[e["kind"], e["keys"], e["exc"]] for e in o["trace"] if e["e"] == "span"]
        if o["open_left"]:
            v.violation(feats, "span_left_open", o)
        # RecvNextFalsy is nondeterministic only in `yielded`: the spans are a function of the case
        if got != want["spans"] or o["trace"][-1]["state"] != want["root"]:
            v.violation(feats, "spans_differ_from_prediction", {"predicted": want, "observed": o["trace"]})
        traces.append(o["trace"])
        owners.append(feats)
    rs, rejected, inv = validate_traces_parallel("Telemetry_Trace", "Telemetry_Trace.cfg", traces, work.sub("tv"), chunk_size=800)
    for r in rs:
        v.add_tlc(r, "Telemetry_Trace")
    bad = set(rejected) | {t for _, t in inv if t is not None}
    for t in sorted(bad):
        why = [i for i, tt in inv if tt == t]
        v.violation(owners[t], "trace_rejected:" + (",".join(why) or "span_log"), {"trace": traces[t], "matched_prefix": rejected.get(t)})
    n_ok = len(traces) - len(bad)
    # ---- HTTP
    htraces, howners = [], []
    for name in ("async_otel", "sync_otel"):
        for (b, t), o in zip(http_cases, outs[name]["http"]):
            feats = {"client": name, "body": b, "transport": t, "part": "http"}
            if o["open_left"]:
                v.violation(feats, "span_left_open", o)
            htraces.append(o["trace"])
            howners.append(feats)
    hres, hrej, hinv = validate_traces("TelemetryHttp_Trace", "TelemetryHttp_Trace.cfg", htraces, work.sub("tvh"))
    v.add_tlc(hres, "TelemetryHttp_Trace")
    hbad = set(hrej) | {t for _, t in hinv if t is not None}
    for t in sorted(hbad):
        why = [i for i, tt in hinv if tt == t]
        v.violation(howners[t], "trace_rejected:" + (",".join(why) or "span_log"), {"trace": htraces[t], "matched_prefix": hrej.get(t)})
    v.cov["evaluations"] = len(traces) + len(htraces)
    v.cov["traces_validated_against_impl"] = n_ok + len(htraces) - len(hbad)
    v.cov["distinct_nontrivial"] = len(traces)
    v.cov["rule"] = ("frame sequences = a 1-in-N sample of the terminal states of Telemetry (WsProtocol sessions up to MaxFrames) x init payload x "
                     "variables mode; HTTP = {json, multipart} x {2xx, 500, transport error} x {sync, async}")
    v.cov["exhaustive"] = False
    v.sample(traces[0])
    v.sample(htraces[0])
    v.assumptions += ["a recording tracer object passed as tracer= (opentelemetry-api only; no SDK in the sandbox)"]
    return v.finish()
