---------------------------- MODULE InputModel_MC ----------------------------
EXTENDS InputModel, Json, IOUtils, SequencesExt
AllDefaults == {"nodefault", "nodefault_unmapped", "nodefault_enum", "nodefault_object", "nodefault_list_nullable_items", "nodefault_nested_list", "int", "float", "float_int", "string", "string_quotes", "bool", "null", "enum", "enum_keyword",
                "id_int", "id_string", "list", "empty_list", "nested_list", "list_null_item", "object", "object_enum",
                "object_list", "object_object", "list_of_objects", "custom_scalar",
                "object_null_entry", "list_of_objects_null_entry", "object_nested_default",
                "object_enum_keyword", "list_of_objects_enum_keyword",
                "list_null", "nested_list_null", "enum_list_null", "object_null", "list_single_value", "nested_list_single_value", "nested_list_flat_items"}
AllNames == {"plain", "camel", "keyword", "reserved", "under"}
NoDev == {}
CaseSeq == SetToSeq({x \in Fields : ValidField(x)})
ASSUME IOEnv.OUT_FILE = "" \/ JsonSerialize(IOEnv.OUT_FILE, CaseSeq)
=============================================================================
