-------------------------- MODULE WsProtocol_Trace --------------------------
(* Trace validation for WsProtocol.  A real session of execute_ws / a generated subscription  *)
(* method against a scripted (or loop-back websockets) server is logged on the client side as *)
(*   case(inbox, payload, vars)  connect(...)  send(frame, ok)  recv(i, kind)  yield(i, ok)    *)
(*   close  eof  end(result)                                                                   *)
(* and is accepted only if it is a behaviour of WsProtocol!Spec.  One code step that is one    *)
(* spec action but two observable events (recv+yield, recv+pong, recv+close) consumes both.    *)
EXTENDS WsProtocol, Json, IOUtils, TLCExt

Traces == JsonDeserialize(IOEnv.TRACE_FILE)
N == Len(Traces)
ASSUME \A t \in 1..N : TLCSet(t, 0)

TraceKinds == JudgedKinds \cup ObservedOnlyKinds
TraceMax == 64
TracePayloads == BOOLEAN
TraceVarModes == {"none", "empty", "filtered", "allunset"}

VARIABLES tid, l
tvars == <<vars, tid, l>>

Ev(i) == Traces[tid][i]
TLen == Len(Traces[tid])
Has(k) == l + k - 1 <= TLen
Take(k) == l' = l + k /\ tid' = tid

TraceInit ==
  /\ tid \in 1..N /\ l = 2
  /\ Traces[tid][1].e = "case"
  /\ inbox = Traces[tid][1].inbox
  /\ cfg = [payload |-> Traces[tid][1].payload, vars |-> Traces[tid][1].vars]
  /\ phase = "idle" /\ pos = 0 /\ sent = <<>> /\ yielded = <<>> /\ closed = FALSE /\ result = "running"

T_Connect ==
  /\ Has(1) /\ Ev(l).e = "connect" /\ Take(1)
  /\ Ev(l).subprotocol_ok /\ Ev(l).headers_ok /\ Ev(l).origin_ok /\ Ev(l).url_ok
  /\ Connect

T_SendInit ==
  /\ Has(1) /\ Ev(l).e = "send" /\ Take(1)
  /\ Ev(l).frame = InitFrame /\ Ev(l).ok
  /\ SendInit

IsRecv(i) == Ev(i).e = "recv" /\ Ev(i).i = pos + 1 /\ Ev(i).kind = Cur

T_RecvFirst == /\ Has(1) /\ phase = "initSent" /\ HasNext /\ IsRecv(l) /\ Take(1) /\ RecvFirst

T_SendSubscribe ==
  /\ Has(1) /\ Ev(l).e = "send" /\ Take(1)
  /\ Ev(l).frame = SubscribeFrame /\ Ev(l).ok
  /\ SendSubscribe

Streaming == phase = "streaming" /\ HasNext

T_RecvNext ==
  /\ Has(2) /\ Streaming /\ IsRecv(l) /\ Ev(l + 1).e = "yield" /\ Ev(l + 1).i = pos + 1 /\ Ev(l + 1).ok
  /\ Take(2) /\ RecvNext

T_RecvNextFalsy ==
  /\ Streaming /\ Cur = "next_falsy"
  /\ \/ /\ Has(2) /\ IsRecv(l) /\ Ev(l + 1).e = "yield" /\ Ev(l + 1).i = pos + 1 /\ Take(2)
        /\ RecvNextFalsy /\ yielded' = Append(yielded, pos + 1)
     \/ /\ Has(1) /\ IsRecv(l) /\ Take(1) /\ (~Has(2) \/ Ev(l + 1).e # "yield")
        /\ RecvNextFalsy /\ yielded' = yielded

T_RecvPing ==
  /\ Has(2) /\ Streaming /\ IsRecv(l) /\ Ev(l + 1).e = "send" /\ Ev(l + 1).frame = "pong" /\ Ev(l + 1).ok
  /\ Take(2) /\ RecvPing

T_RecvIgnored == /\ Has(1) /\ Streaming /\ IsRecv(l) /\ Take(1) /\ RecvIgnored

T_RecvComplete ==
  /\ Has(2) /\ Streaming /\ IsRecv(l) /\ Ev(l + 1).e = "close"
  /\ Take(2) /\ RecvComplete

T_RecvError   == /\ Has(1) /\ Streaming /\ IsRecv(l) /\ Take(1) /\ RecvError
T_RecvInvalid == /\ Has(1) /\ Streaming /\ IsRecv(l) /\ Take(1) /\ RecvInvalid

T_ServerClosed == /\ Has(1) /\ Ev(l).e = "eof" /\ Take(1) /\ ServerClosed

\* what the caller saw: the iterator finished / raised; must agree with the spec's result
T_End ==
  /\ Has(1) /\ Ev(l).e = "end" /\ Take(1)
  /\ phase = "ended" /\ Ev(l).result = result
  /\ Ev(l).nyielded = Len(yielded)
  /\ UNCHANGED vars

TraceNext == T_Connect \/ T_SendInit \/ T_RecvFirst \/ T_SendSubscribe \/ T_RecvNext \/ T_RecvNextFalsy
             \/ T_RecvPing \/ T_RecvIgnored \/ T_RecvComplete \/ T_RecvError \/ T_RecvInvalid
             \/ T_ServerClosed \/ T_End
TraceSpec == TraceInit /\ [][TraceNext]_tvars

Reached == TLCSet(tid, IF l > TLCGet(tid) THEN l ELSE TLCGet(tid))
Accepted ==
  LET bad == {t \in 1..N : TLCGet(t) # Len(Traces[t]) + 1} IN
  /\ \A t \in bad : PrintT(<<"REJECTED", t, TLCGet(t)>>)
  /\ bad = {}
=============================================================================
