"""Scratch: generate a client package from SDL + queries, import it, return module."""
import sys, os, importlib, shutil, tempfile, json, uuid, traceback
sys.path.insert(0, "/repo")
from pathlib import Path
from click.testing import CliRunner

def generate(schema, queries, extra="", scalars="", strategy=None, files=None, name=None):
    from ariadne_codegen.main import main
    d = Path(tempfile.mkdtemp(prefix="acg_", dir="/tmp/exp"))
    (d/"schema.graphql").write_text(schema)
    if queries is not None:
        (d/"queries.graphql").write_text(queries)
    for fn, txt in (files or {}).items():
        (d/fn).write_text(txt)
    name = name or ("pkg_" + uuid.uuid4().hex[:8])
    cfg = f'[tool.ariadne-codegen]\nschema_path = "schema.graphql"\n'
    if queries is not None:
        cfg += 'queries_path = "queries.graphql"\n'
    cfg += f'target_package_name = "{name}"\ninclude_comments = "none"\n{extra}\n{scalars}\n'
    (d/"pyproject.toml").write_text(cfg)
    old = os.getcwd(); os.chdir(d)
    try:
        args = [strategy or "client"]
        r = CliRunner().invoke(main, args, catch_exceptions=True)
    finally:
        os.chdir(old)
    return d, name, r

def load(d, name):
    sys.path.insert(0, str(d))
    try:
        return importlib.import_module(name)
    finally:
        sys.path.remove(str(d))

def show(r):
    if r.exception:
        print("EXC:", type(r.exception).__name__, r.exception)
        traceback.print_exception(type(r.exception), r.exception, r.exception.__traceback__, limit=-3)

# scratch-only monkeypatch emulating the planned "fix:" for __typename under graphql-core>=3.2.7
def _patch_typename():
    from graphql import GraphQLField, GraphQLNonNull, GraphQLString, GraphQLObjectType
    from ariadne_codegen.client_generators import result_types as rt
    from ariadne_codegen.exceptions import ParsingError
    def _get_field_from_schema(self, type_name, field_name):
        try:
            return self.schema.type_map[type_name].fields[field_name]
        except KeyError as exc:
            if field_name == "__typename":
                return GraphQLField(type_=GraphQLNonNull(GraphQLString))
            raise ParsingError(f"Field {field_name} not found in type {type_name}.") from exc
    rt.ResultTypesGenerator._get_field_from_schema = _get_field_from_schema
if os.environ.get("PATCH_TYPENAME", "1") == "1":
    _patch_typename()
