"""C07 -- custom scalars are parsed and serialised exactly once per occurrence.

Same TLA+ machine as C03 (Variables): serLog is the call log of the user's serialize function (argument positions) or
parse function (result positions).  leg 1: TLC on the intended and the as-built design; leg 2: every case is run on a
generated package whose scalar module (supplied through files_to_include) logs every parse / serialize call; leg 3: the
(case, observed) traces are validated by Variables_Trace.  Scalar configurations {type only, +parse +serialize} x
{relative, dotted, deprecated `import` key} are exercised by generating the project once per import style.
"""
import json

from ..common import Verdict, validate_traces_parallel, Machinery
from .. import varcore as vc

IMPORT_STYLES = {
    "relative": {"Stamp": {"type": ".scalars_mod.Stamp", "serialize": ".scalars_mod.serialize_stamp", "parse": ".scalars_mod.parse_stamp"},
                 "Day": {"type": "datetime.date"}},
    # the class is its own parser (parse = type): parse must still be called, once, for every non-null occurrence
    "type_as_parser": {"Stamp": {"type": ".scalars_mod.Stamp", "serialize": ".scalars_mod.serialize_stamp", "parse": ".scalars_mod.Stamp"},
                       "Day": {"type": "datetime.date"}},
    "deprecated_import_key": {"Stamp": {"type": "Stamp", "serialize": "serialize_stamp", "parse": "parse_stamp", "import": ".scalars_mod"},
                              "Day": {"type": "date", "import": "datetime"}},
}


def leaves(c):
    if c["state"] in ("omitted", "none", "empty"):
        return 0
    if c["state"] == "val_falsy":
        return 1 if (c["w"] in ("T", "T!") or c["w"] == "[[T!]]") else 2
    if c["w"] in ("T", "T!"):
        return 1
    if c["w"] == "[[T!]]":
        return 3
    return 2      # also val_nullitem / val_nullfirst: two non-null leaves


def run(tier, work, replay=None):
    v = Verdict("C07", tier)
    cases, res = vc.enumerate_cases(work, "Intended0")
    v.add_tlc(res, "Variables (args + results), intended design")
    _, res2 = vc.enumerate_cases(work, "AsBuilt")
    v.add_tlc(res2, "Variables, as built (deviation toplevel_serialize_whole)")
    traces, owners = [], []
    n = 0
    all_cases = cases
    for style, scalars in IMPORT_STYLES.items():
        for variant, opts in (("async", {"async_client": True}), ("sync", {"async_client": False})):
            if tier == "quick" and style != "relative" and variant == "async":
                continue
            vc.SCALARS_CFG.clear()
            vc.SCALARS_CFG.update(scalars)
            cases = [c for c in all_cases if opts["async_client"] or not c["pos"].startswith("sub")]
            job, r, sdl = vc.generate_project(work, cases, opts, f"{style}_{variant}")
            if r["exc_class"]:
                v.violation({"variant": variant, "style": style, "stage": "generate"}, f"gen_crash:{r['exc_class']}", r["exc_msg"])
                continue
            try:
                o = vc.drive(job, cases, sdl, opts["async_client"])
            except Machinery as ex:
                v.violation({"variant": variant, "style": style, "stage": "load"}, "package_does_not_load", str(ex)[-600:])
                continue
            for c, rec in zip(cases, o["results"]):
                n += 1
                feats = {"w": c["w"], "kind": c["kind"], "pos": c["pos"], "state": c["state"], "variant": variant, "style": style,
                         "islist": c["w"] not in ("T", "T!")}
                if "error" in rec:
                    v.violation(feats, "driver_error:" + rec["error"].split(":")[0], rec)
                    continue
                if rec.get("present") is None:
                    v.violation(feats, "call_failed:" + str(rec.get("call")).split(":")[0], rec)
                    continue
                log = rec.get("serlog", [])
                what = "parse" if c["pos"].startswith("result") else "serialize"
                if c["kind"] == "ser":
                    for bad in ("unset", "none", "whole_list"):
                        if bad in log:
                            v.violation(feats, f"{what}_called_with:{bad}", rec)
                    if log != ["leaf"] * leaves(c) and not any(b in log for b in ("unset", "none", "whole_list")):
                        v.violation(feats, f"{what}_log_differs", dict(rec, expected_calls=leaves(c)))
                elif log:
                    v.violation(feats, f"{what}_called_for_unconfigured_scalar", rec)
                if c["pos"].startswith("result") and not rec.get("value_ok"):
                    v.violation(feats, "parsed_value_differs", rec)
                traces.append([dict(c, e="case"), {"e": "observed", "present": bool(rec["present"]), "wire": rec["wire"],
                                                   "serlog": rec["serlog"], "delivered": rec["delivered"]}])
                owners.append((feats, rec))
    # ---- pruned package: include_all_inputs = false and ONLY the operations whose variable is the outer input, so that the
    #      input holding the custom scalar is reached through another input only (its scalar imports must still be emitted)
    vc.SCALARS_CFG.clear()
    vc.SCALARS_CFG.update(IMPORT_STYLES["relative"])
    ncases = [c for c in all_cases if c["pos"] == "nested"]
    for variant, opts in (("sync_pruned", {"async_client": False, "include_all_inputs": False, "include_all_enums": False}),):
        job, r, sdl = vc.generate_project(work, ncases, opts, f"pruned_{variant}", only_ops=["OpN_"])
        feats0 = {"variant": variant, "style": "relative", "stage": "pruned"}
        if r["exc_class"]:
            v.violation(dict(feats0, stage="generate"), f"gen_crash:{r['exc_class']}", r["exc_msg"])
            continue
        try:
            o = vc.drive(job, ncases, sdl, False)
        except Machinery as ex:
            v.violation(dict(feats0, stage="load"), "package_does_not_load", str(ex)[-600:])
            continue
        for c, rec in zip(ncases, o["results"]):
            n += 1
            feats = {"w": c["w"], "kind": c["kind"], "pos": c["pos"], "state": c["state"], "variant": variant, "style": "relative",
                     "islist": c["w"] not in ("T", "T!")}
            if "error" in rec or rec.get("present") is None:
                v.violation(feats, "pruned_package_call_failed", rec)
                continue
            log = rec.get("serlog", [])
            if c["kind"] == "ser" and log != ["leaf"] * leaves(c):
                v.violation(feats, "serialize_log_differs", dict(rec, expected_calls=leaves(c)))
    rs, rejected, inv = validate_traces_parallel("Variables_Trace", "Variables_Trace.cfg", traces, work.sub("tv"), chunk_size=600)
    for r in rs:
        v.add_tlc(r, "Variables_Trace")
    bad = set(rejected) | {t for _, t in inv if t is not None}
    for t in sorted(bad):
        feats, rec = owners[t]
        why = [i for i, tt in inv if tt == t]
        v.violation(feats, "trace_rejected:" + (",".join(why) or "observed"), {"trace": traces[t], "raw": rec})
    v.cov["evaluations"] = n
    v.cov["traces_validated_against_impl"] = len(traces) - len(bad)
    v.cov["distinct_nontrivial"] = len([1 for c in cases if c["kind"] in ("ser", "native", "raw")])
    v.cov["rule"] = ("cases = wrapper (7) x kind x position (variable, input field, nested input field, result field, nested result, "
                     "result through a fragment) x state (omitted / None / value / null item / empty list) from Variables!Cases; "
                     "non-trivial = the custom-scalar kinds (serialize+parse, native type only, unconfigured)")
    v.cov["exhaustive"] = True
    for k in (0, len(traces) // 2, len(traces) - 1):
        v.sample({"trace": traces[k], "raw": {x: owners[k][1].get(x) for x in ("parse_raw", "wire_raw", "got")}})
    v.assumptions += ["the logging scalar module is the user's code; graphql-core is the reference server"]
    return v.finish()
