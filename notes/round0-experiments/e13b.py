from gen import *
import sys
schema = '''
enum Color { RED }
input Flt { q: String }
type Item { id: ID! }
type Query { items(flt: Flt, c: Color): [Item!]! one: Item }
type Subscription { tick: Int! }
'''
q = 'query A($f: Flt, $c: Color) { items(flt: $f, c: $c) { id } } query B { one { id } items { id } } subscription S { tick }'
P = "ariadne_codegen.contrib."
plugins = sys.argv[1].split(",")
extra = "plugins=[" + ",".join('"%s%s"' % (P, p) for p in plugins) + "]"
d, n, r = generate(schema, q, extra=extra)
tag = "+".join(p.split(".")[0] for p in plugins)
if r.exception: print(tag, "GEN EXC", type(r.exception).__name__, str(r.exception)[:200]); sys.exit()
try:
    sys.path.insert(0, str(d)); cm = importlib.import_module(n + ".client"); print(tag, "client loads;", "files:", sorted(os.listdir(d/n)))
    if "forward" in tag and len(plugins) == 1: print((d/n/"client.py").read_text()[:1200])
except Exception as e: print(tag, "LOAD FAIL", type(e).__name__, str(e)[:200])
