----------------------------- MODULE Variables_MC -----------------------------
EXTENDS Variables, Json, IOUtils, SequencesExt
AllWrappers == {"T", "T!", "[T]", "[T]!", "[T!]", "[T!]!", "[[T!]]"}
AllKinds == {"int", "enum", "ser", "native", "raw", "input"}
AllPositions == {"var", "field", "nested", "recursive", "sub_var", "sub_field", "result", "result_nested", "result_fragment", "result_union"}
AllStates == {"omitted", "none", "val", "val_nullitem", "empty", "val_falsy", "val_nullfirst"}
Intended0 == {}
AsBuilt == {"toplevel_serialize_whole"}
CaseSeq == SetToSeq(Cases)
ASSUME IOEnv.OUT_FILE = "" \/ JsonSerialize(IOEnv.OUT_FILE, CaseSeq)
=============================================================================
