SPECIFICATION Spec
CONSTANT Statuses <- StatusSet
INVARIANT TypeOK
INVARIANT OutcomeIsDocumented
INVARIANT ExactlyOne
INVARIANT NoDataWhenErrors
INVARIANT OnlyDocumentedKinds
INVARIANT StatusFirst
PROPERTY OutcomeStable
CHECK_DEADLOCK FALSE
