"""C03 -- method arguments arrive at the server as the declared variables.

leg 1: TLC checks Variables (Call -> BuildDict -> FilterUnset -> Convert -> Send -> ServerCoerce) for every wrapper x kind
       x position x call state, on the intended design and on the as-built design (deviation = known finding F13).
leg 2: every enumerated case is called on a generated method (sync and async, snake-casing on and off) with schema-valid
       Python values; the payload and what a graphql-core resolver receives are compared with the intended value.
leg 3: (case, observed) traces are validated by Variables_Trace.
Plus: argument NAMES (camelCase, keywords, names of the method's own locals) over a second, name-only enumeration.
"""
import json

from ..common import Verdict, validate_traces_parallel, pmap, Machinery
from .. import varcore as vc
from ..gen import write_job, generate, run_in_pkg

VARIANTS = [("async_snake", {"async_client": True}), ("sync_snake", {"async_client": False}),
            ("sync_nosnake", {"async_client": False, "convert_to_snake_case": False})]


def intended(c):
    from ..pkg.variables import intended_wire
    return intended_wire(c["w"], c["state"], c["kind"])


def judge(v, c, rec, variant, pid):
    feats = {"w": c["w"], "kind": c["kind"], "pos": c["pos"], "state": c["state"], "variant": variant,
             "islist": c["w"] not in ("T", "T!"), "dflt": bool(c.get("dflt"))}
    if "error" in rec:
        v.violation(feats, "driver_error:" + rec["error"].split(":")[0], rec)
        return False
    bad = False
    if pid == "C03":
        if rec.get("call") != "ok" and rec.get("present") is None:
            v.violation(feats, "call_failed:" + str(rec.get("call")).split(":")[0], rec)
            return False
        want = intended(c)
        if c["state"] == "omitted":
            if rec.get("present"):
                bad |= v.violation(feats, "omitted_but_sent", rec)
            elif rec.get("delivered") != (["default"] if c.get("dflt") else ["absent"]):
                bad |= v.violation(feats, "omitted_but_delivered", rec)
        else:
            if not rec.get("present"):
                bad |= v.violation(feats, "value_not_sent", rec)
            elif rec.get("wire_raw") != want:
                bad |= v.violation(feats, "payload_differs" + (":none_not_null" if c["state"] == "none" else ""), dict(rec, intended=want))
            elif rec.get("delivered") == ["rejected"]:
                bad |= v.violation(feats, "rejected_by_variable_coercion", rec)
            elif rec.get("delivered_raw") != want:
                bad |= v.violation(feats, "delivered_differs", dict(rec, intended=want))
        # a required variable cannot be omitted: no default in the signature
        if c["pos"] in ("var", "sub_var") and c["w"] in ("T!", "[T]!", "[T!]!") and rec.get("signature", {}).get("a", False):
            bad |= v.violation(feats, "required_argument_has_default", rec)
        if c["pos"] in ("var", "sub_var") and c["w"] not in ("T!", "[T]!", "[T!]!") and not rec.get("signature", {}).get("a", True):
            bad |= v.violation(feats, "optional_argument_without_default", rec)
    return bad


NAME_SCHEMA = "type Query {{ f({args}): Boolean }}\n"
NAMES = ["count", "firstName", "from", "class", "query", "variables", "response", "data", "_query", "URLPath", "x1", "id", "type",
         "self", "kwargs", "gql", "operation_name", "operationName", "Client", "json", "headers"]


def names_leg(v, work):
    """Argument names: every name alone, and pairs that may clash (a name and the renamed local it displaces)."""
    ops = []
    args = ", ".join(f"{n}: Int" for n in NAMES)
    for i, n in enumerate(NAMES):
        ops.append(f"query N{i}(${n}: Int) {{ f({n}: ${n}) }}")
    pairs = [("query", "_query"), ("variables", "_variables"), ("data", "_data"), ("response", "_response"), ("firstName", "first_name")]
    sdl_args = set(NAMES)
    for a, b in pairs:
        sdl_args |= {a, b}
    for j, (a, b) in enumerate(pairs):
        ops.append(f"query P{j}(${a}: Int, ${b}: Int) {{ f({a}: ${a}, {b}: ${b}) }}")
    sdl = NAME_SCHEMA.format(args=", ".join(f"{n}: Int" for n in sorted(sdl_args)))
    singles = [{"op": f"N{i}", "names": [n]} for i, n in enumerate(NAMES)]
    doubles = [{"op": f"P{j}", "names": [a, b]} for j, (a, b) in enumerate(pairs)]
    out = []
    for variant, opts in VARIANTS[1:]:
        # one operation per package so that one bad name does not hide the others
        def one(item):
            text = [o for o in ops if o.startswith(f"query {item['op']}(")][0]
            job = write_job(work.dir / f"nm_{variant}_{item['op']}", schema=sdl, queries=text + "\n", package="gclient", options=opts)
            r = generate(job)
            if r["exc_class"]:
                return item, {"gen": r["exc_class"], "msg": r["exc_msg"]}
            try:
                o = run_in_pkg(job, "harness.pkg.names_args", {"package": "gclient", "item": item, "sdl": sdl})
            except Machinery as ex:
                o = {"load": str(ex).splitlines()[-1][:200]}
            return item, o
        for item, o in pmap(one, singles + doubles):
            feats = {"names": item["names"], "names_key": "+".join(item["names"]), "variant": variant, "scope": "variables"}
            if "gen" in o:
                v.violation(feats, "gen_crash:" + o["gen"], o)
            elif "load" in o:
                v.violation(feats, "package_does_not_load", o)
            elif o.get("problem"):
                v.violation(feats, o["problem"], o)
            out.append((item, o))
    return len(out)


INPUT_FIELD_NAMES = ["_eq", "_in", "firstName", "from", "schema", "model_config", "copy", "URLPath", "x1"]


def input_names_leg(v, work):
    """input FIELD names (the variable-name leg above covers the variables): leading underscores, camelCase, keywords,
    pydantic attribute names, with snake-casing on and off"""
    sdl = ("input W { _id: ID! " + " ".join(f"{n}: Int" for n in INPUT_FIELD_NAMES) + " }\ntype Query { f(w: W): Boolean }\n")
    n = 0
    for variant, opts in VARIANTS[1:]:
        job = write_job(work.dir / f"inm_{variant}", schema=sdl, queries="query Q($w: W) { f(w: $w) }\n", package="gclient", options=opts)
        r = generate(job)
        feats = {"names_key": "input_fields", "variant": variant, "scope": "input_fields"}
        if r["exc_class"]:
            v.violation(feats, "gen_crash:" + r["exc_class"], {"message": r["exc_msg"]})
            continue
        try:
            o = run_in_pkg(job, "harness.pkg.names_inputs", {"package": "gclient", "sdl": sdl, "names": INPUT_FIELD_NAMES, "required": "_id"})
        except Machinery as ex:
            v.violation(feats, "package_does_not_load", {"error": str(ex)[-300:]})
            continue
        n += 3
        for pb in o["problems"]:
            what = (pb.split(":")[1].strip().split(" ")[0] if ":" in pb else pb)
            v.violation(feats, "input_field_names:" + what, {"problem": pb})
    return n


def run(tier, work, replay=None):
    v = Verdict("C03", tier)
    cases, res = vc.enumerate_cases(work, "Intended0")
    cases = [c for c in cases if not c["pos"].startswith("result")]      # the result direction is C07's
    v.add_tlc(res, "Variables, intended design")
    cases2, res2 = vc.enumerate_cases(work, "AsBuilt")
    v.add_tlc(res2, "Variables, as built (deviation toplevel_serialize_whole)")
    traces, owners = [], []
    n = 0
    all_cases = cases
    for variant, opts in (VARIANTS if tier != "quick" else VARIANTS[:2] + VARIANTS[2:]):
        cases = [c for c in all_cases if opts.get("async_client") or not c["pos"].startswith("sub")]   # subscriptions: async client only
        job, r, sdl = vc.generate_project(work, cases, opts, variant)
        if r["exc_class"]:
            v.violation({"variant": variant, "stage": "generate"}, f"gen_crash:{r['exc_class']}", r["exc_msg"])
            continue
        o = vc.drive(job, cases, sdl, opts.get("async_client", False))
        for c, rec in zip(cases, o["results"]):
            n += 1
            judge(v, c, rec, variant, "C03")
            if "error" not in rec and rec.get("present") is not None:
                traces.append([dict(c, e="case"), {"e": "observed", "present": bool(rec["present"]), "wire": rec["wire"],
                                                   "serlog": rec["serlog"], "delivered": rec["delivered"]}])
                owners.append((c, variant, rec))
    cases = all_cases
    n += names_leg(v, work)
    n += input_names_leg(v, work)
    rs, rejected, inv = validate_traces_parallel("Variables_Trace", "Variables_Trace.cfg", traces, work.sub("tv"), chunk_size=600)
    for r in rs:
        v.add_tlc(r, "Variables_Trace")
    bad = set(rejected) | {t for _, t in inv if t is not None}
    for t in sorted(bad):
        c, variant, rec = owners[t]
        why = [i for i, tt in inv if tt == t]
        v.violation({"w": c["w"], "kind": c["kind"], "pos": c["pos"], "state": c["state"], "variant": variant, "islist": c["w"] not in ("T", "T!")},
                    "trace_rejected:" + (",".join(why) or "observed"), {"trace": traces[t], "raw": rec})
    v.cov["evaluations"] = n
    v.cov["traces_validated_against_impl"] = len(traces) - len(bad)
    v.cov["distinct_nontrivial"] = len([1 for c in cases if not (c["kind"] == "int" and c["w"] == "T!" and c["state"] == "val")])
    v.cov["rule"] = ("cases = wrapper (7) x kind (6) x position (variable / input field / nested input field) x call state (omitted, "
                     "None, value, value with null item, empty list) enumerated by TLC, on async+sync and snake-case on/off; plus 21 "
                     "argument names and 5 clashing pairs; non-trivial = anything but a plain required Int that is present")
    v.cov["exhaustive"] = True
    for k in (0, len(traces) // 2, len(traces) - 1):
        v.sample({"trace": traces[k], "variables_on_wire": owners[k][2].get("variables")})
    v.assumptions += ["graphql-core executes the sent document and coerces the variables (reference server)"]
    return v.finish()
