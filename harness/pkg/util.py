"""Helpers for drivers that run inside a fresh interpreter next to a generated package."""
import asyncio
import importlib
import inspect
import json
import os
import sys


def load_payload():
    return json.loads(sys.stdin.read())


def emit(result):
    sys.stdout.write("\n@@RESULT@@" + json.dumps(result, default=repr))
    sys.stdout.flush()


def import_pkg(name, jobdir=None):
    jobdir = jobdir or os.environ.get("VERIF_JOBDIR") or os.getcwd()
    if jobdir not in sys.path:
        sys.path.insert(0, jobdir)
    return importlib.import_module(name)


def call(f, *a, **k):
    """Call a sync or async callable to completion."""
    r = f(*a, **k)
    if inspect.isawaitable(r):
        return asyncio.run(_await(r))
    return r


async def _await(r):
    return await r


def exc_kind(ex):
    n = type(ex).__name__
    return {
        "GraphQLClientHttpError": "http_error",
        "GraphQLClientHttpError".lower(): "http_error",
        "GraphQLClientInvalidResponseError": "invalid_response",
        "GraphQLClientGraphQLMultiError": "multi_error",
        "GraphQLClientInvalidMessageFormat": "invalid_message",
        "ValidationError": "validation_error",
    }.get(n, "other:" + n)
