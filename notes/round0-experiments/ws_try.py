import asyncio, json, sys
sys.path.insert(0, "/repo")
import websockets
from websockets.asyncio.server import serve
from ariadne_codegen.client_generators.dependencies.async_base_client import AsyncBaseClient

async def handler(ws):
    print("server subprotocol", ws.subprotocol, dict(ws.request.headers))
    async for m in ws:
        d = json.loads(m)
        print("srv got", d)
        if d["type"] == "connection_init":
            await ws.send(json.dumps({"type": "connection_ack"}))
        elif d["type"] == "subscribe":
            await ws.send(json.dumps({"type": "next", "id": d["id"], "payload": {"data": {"a": 1}}}))
            await ws.send(json.dumps({"type": "complete", "id": d["id"]}))

async def main():
    async with serve(handler, "127.0.0.1", 8765, subprotocols=["graphql-transport-ws"]):
        c = AsyncBaseClient(ws_url="ws://127.0.0.1:8765", ws_headers={"X-A": "b"}, ws_origin="http://x")
        try:
            async for d in c.execute_ws("subscription S { a }", "S", {}):
                print("client got", d)
        except Exception as e:
            print("EXC", type(e), e)
asyncio.run(main())
