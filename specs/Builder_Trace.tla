---------------------------- MODULE Builder_Trace ----------------------------
(* Trace validation for Builder.  A real session with the generated custom_fields /           *)
(* custom_queries classes and Client.query() is logged as                                      *)
(*    add(f, parent, frag, alias, given)   -- one builder call, as the user wrote it           *)
(*    build(doc, valid, values_ok, vars_unique)  -- the request captured from the transport    *)
(* The captured document is compared with Doc(cur, sharedAlias) modulo the spelling of         *)
(* variable names (which is incidental): each argument occurrence must use a variable that is  *)
(* declared with the argument's exact type.                                                    *)
EXTENDS Builder, Json, IOUtils, TLCExt

Traces == JsonDeserialize(IOEnv.TRACE_FILE)
N == Len(Traces)
ASSUME \A t \in 1..N : TLCSet(t, 0)

TraceAliases == {"a1", "a2", "a3"}
TraceMaxNodes == 12
TraceMaxOps == 8

VARIABLES tid, l
tvars == <<vars, tid, l>>
Ev == Traces[tid][l]
ToSet(s) == {s[i] : i \in DOMAIN s}

TraceInit == tid \in 1..N /\ l = 1 /\ Init

T_Add ==
  /\ l <= Len(Traces[tid]) /\ Ev.e = "add" /\ l' = l + 1 /\ tid' = tid
  /\ AddNode([f |-> Ev.f, parent |-> Ev.parent, frag |-> Ev.frag, alias |-> Ev.alias, given |-> ToSet(Ev.given), src |-> Fresh0])

\* the same Python object of an earlier operation is passed again
T_Reuse ==
  /\ l <= Len(Traces[tid]) /\ Ev.e = "reuse" /\ l' = l + 1 /\ tid' = tid
  /\ ReuseTop(Ev.m, Ev.j)

\* canonical form: variable names abstracted to the argument occurrence that uses them
Canon(d) == [nodes |-> [i \in 1..Len(d.nodes) |->
                          [name |-> d.nodes[i].name, alias |-> d.nodes[i].alias, parent |-> d.nodes[i].parent,
                           frag |-> d.nodes[i].frag,
                           args |-> [k \in 1..Len(d.nodes[i].args) |-> d.nodes[i].args[k][1]]]],
             decls |-> UNION {{<<i, d.nodes[i].args[k][1], CHOOSE t \in {p[2] : p \in {q \in d.decls : q[1] = d.nodes[i].args[k][2]}} : TRUE>>
                               : k \in 1..Len(d.nodes[i].args)} : i \in 1..Len(d.nodes)}]
ObsNodes(o) == [i \in 1..Len(o.nodes) |->
                  [name |-> o.nodes[i].name, alias |-> o.nodes[i].alias, parent |-> o.nodes[i].parent,
                   frag |-> o.nodes[i].frag, args |-> [k \in 1..Len(o.nodes[i].args) |-> o.nodes[i].args[k]]]]
ObsDecls(o) == {<<o.decls[k][1], o.decls[k][2], o.decls[k][3]>> : k \in 1..Len(o.decls)}

T_Build ==
  /\ l <= Len(Traces[tid]) /\ Ev.e = "build" /\ l' = l + 1 /\ tid' = tid
  /\ Build
  /\ LET c == Canon(Doc(cur, sharedAlias)) IN
     /\ Len(Ev.doc.nodes) = Len(c.nodes)
     /\ ObsNodes(Ev.doc) = c.nodes
     /\ ObsDecls(Ev.doc) = c.decls
  \* a leaked alias (deviation alias_leak) can make two sibling response keys collide: the document is then invalid
  /\ (Ev.valid \/ \E i \in 1..Len(cur) : FT[cur[i].f].shared /\ ShownAlias(cur[i], sharedAlias) # cur[i].alias)
  /\ Ev.values_ok /\ Ev.vars_unique

TraceNext == T_Add \/ T_Reuse \/ T_Build
TraceSpec == TraceInit /\ [][TraceNext]_tvars

Reached == TLCSet(tid, IF l > TLCGet(tid) THEN l ELSE TLCGet(tid))
Accepted ==
  LET bad == {t \in 1..N : TLCGet(t) # Len(Traces[t]) + 1} IN
  /\ \A t \in bad : PrintT(<<"REJECTED", t, TLCGet(t)>>)
  /\ bad = {}
=============================================================================
