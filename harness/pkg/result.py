"""In-package driver for the result-model properties (C01, C05, C08 and users of the same core).

For every operation of the batch:
  alpha   project the generated pydantic classes of the root field to the abstract model of specs/ResultModel.tla
  leg 2   call the generated method through httpx.MockTransport whose handler EXECUTES THE RECEIVED QUERY with
          graphql-core against the universe schema, for a covering set of responses (every runtime type, nullable
          positions nulled, conditionals off, list lengths 0/1/2), and compare what comes back with the data
  C05     corrupt each conformant payload at every single point and expect a ValidationError
"""
import asyncio
import copy
import enum
import json
import sys
import typing
from typing import Annotated, Any, List, Literal, Union, get_args, get_origin

import httpx
import pydantic
from graphql import (GraphQLList, GraphQLNonNull, GraphQLObjectType, build_schema, get_named_type, graphql_sync,
                     is_abstract_type, is_enum_type, is_leaf_type, is_list_type, is_non_null_type, parse)
from graphql.execution.collect_fields import collect_fields, collect_sub_fields as collect_subfields  # noqa

from .util import load_payload, emit, import_pkg
from ..universe import gamma

NoneType = type(None)


# ------------------------------------------------------------------------------------------- alpha
def unannot(a):
    while get_origin(a) is Annotated:
        a = get_args(a)[0]
    return a


def unopt(a):
    a = unannot(a)
    if get_origin(a) is Union:
        args = [x for x in get_args(a) if x is not NoneType]
        if len(args) != len(get_args(a)):
            if len(args) == 1:
                return unannot(args[0]), True
            return Union[tuple(args)], True
    return a, False


def scalar_kind(a):
    if a is str:
        return "str"
    if a is int:
        return "int"
    if a is float:
        return "float"
    if a is bool:
        return "bool"
    if a is Any:
        return "any"
    if isinstance(a, type) and issubclass(a, enum.Enum):
        return "enum"
    return "other:" + getattr(a, "__name__", repr(a))[:40]


def project_annotation(ann, depth_guard=0):
    cur, nullable = unopt(ann)
    depth, items = 0, []
    while get_origin(unannot(cur)) in (list, typing.List):
        inner = get_args(unannot(cur))[0]
        inner, inl = unopt(inner)
        items.append(inl)
        depth += 1
        cur = inner
    cur = unannot(cur)
    classes = []
    if get_origin(cur) is Union:
        classes = [unannot(x) for x in get_args(cur)]
    elif isinstance(cur, type) and issubclass(cur, pydantic.BaseModel):
        classes = [cur]
    if classes and all(isinstance(c, type) and issubclass(c, pydantic.BaseModel) for c in classes):
        return {"nullable": nullable, "depth": depth, "items": items, "kind": "object",
                "sub": [project_class(c, depth_guard + 1) for c in classes]}
    return {"nullable": nullable, "depth": depth, "items": items, "kind": scalar_kind(cur), "sub": []}


def project_class(cls, depth_guard=0):
    if depth_guard > 8:
        return {"name": cls.__name__, "typenames": [], "fields": [], "bases": []}
    tn, fields = [], []
    for name, fi in cls.model_fields.items():
        if name == "typename__":
            a = unannot(fi.annotation)
            tn = sorted(get_args(a)) if get_origin(a) is Literal else ["?"]
            continue
        p = project_annotation(fi.annotation, depth_guard)
        p["key"] = fi.alias or name
        p["py"] = name
        p["required"] = fi.is_required()
        if not fi.is_required() and fi.default is not None:
            p["default"] = repr(fi.default)
        fields.append(p)
    bases = [b.__name__ for b in cls.__mro__[1:] if issubclass(b, pydantic.BaseModel) and b.__name__ != "BaseModel"]
    return {"name": cls.__name__, "typenames": tn, "fields": fields, "bases": bases}


# ------------------------------------------------------------------------------------------- helpers
def vars_for(query_text, mode):
    v = {}
    if "$inc" in query_text:
        v["inc"] = mode != "off"
    if "$skp" in query_text:
        v["skp"] = mode == "off"
    return v


def response_plan(op, quick):
    named, w = gamma.ROOT_TYPE[op["root"]]
    plan = []
    lens = [1] if w in ("T", "T!") else ([0, 1, 2] if not quick else [0, 2])
    for t in gamma.POSSIBLE[named]:
        for mode in ("full", "nulls", "off"):
            for n in lens:
                plan.append((t, mode, n))
    if w in ("T", "[T]", "[T!]", "[[T!]]"):
        plan.append((gamma.POSSIBLE[named][0], "rootnull", 1))
    return plan


class Ctx:
    def __init__(self, schema):
        self.schema = schema
        self.root = None
        self.last = None


def make_handler(ctx):
    def handler(request):
        body = json.loads(request.content)
        ctx.last = body
        res = graphql_sync(ctx.schema, body["query"], root_value=ctx.root, variable_values=body.get("variables") or {},
                           operation_name=body.get("operationName"))
        out = {"data": res.data}
        if res.errors:
            out["errors"] = [{"message": str(e)} for e in res.errors]
        return httpx.Response(200, json=out)
    return handler


def enum_check(obj, data):
    """every enum value in the validated object is the member whose value is the response string"""
    ok = True
    if isinstance(obj, pydantic.BaseModel):
        for name, fi in type(obj).model_fields.items():
            key = fi.alias or name
            v = getattr(obj, name)
            d = data.get(key) if isinstance(data, dict) else None
            ok = ok and enum_check(v, d)
    elif isinstance(obj, list):
        for a, b in zip(obj, data or []):
            ok = ok and enum_check(a, b)
    elif isinstance(obj, enum.Enum):
        ok = obj.value == data and type(obj)(data) is obj
    return ok


def typename_check(obj, data):
    """at every position whose class declares typename__, the literal contains the response's __typename"""
    ok = True
    if isinstance(obj, pydantic.BaseModel):
        fi = type(obj).model_fields.get("typename__")
        if fi is not None and isinstance(data, dict) and "__typename" in data:
            a = unannot(fi.annotation)
            ok = ok and get_origin(a) is Literal and data["__typename"] in get_args(a) and obj.typename__ == data["__typename"]
        for name, f2 in type(obj).model_fields.items():
            key = f2.alias or name
            if isinstance(data, dict) and key in data:
                ok = ok and typename_check(getattr(obj, name), data[key])
    elif isinstance(obj, list) and isinstance(data, list):
        for a, b in zip(obj, data):
            ok = ok and typename_check(a, b)
    return ok


# ------------------------------------------------------------------------------------------- corruption (C05)
def typed_points(schema, doc, data, variables_full, variables_off):
    """Walk a conformant `data` with the schema: yield (path, graphql type, conditional?, value, parent possible types)."""
    op = [d for d in doc.definitions if d.kind == "operation_definition"][0]
    frags = {d.name.value: d for d in doc.definitions if d.kind == "fragment_definition"}
    out = []

    def coll(rt, nodes_or_selset, variables, top):
        if top:
            return collect_fields(schema, frags, variables, rt, nodes_or_selset)
        return collect_subfields(schema, frags, variables, rt, nodes_or_selset)

    def walk_obj(obj, rt, src, path, top):
        on = coll(rt, src, variables_full, top)
        off = coll(rt, src, variables_off, top)
        for key, nodes in on.items():
            fname = nodes[0].name.value
            if fname == "__typename":
                out.append((path + [key], "__typename", False, obj.get(key), None))
                continue
            ftype = rt.fields[fname].type
            cond = key not in off
            if key not in obj:
                continue
            out.append((path + [key], ftype, cond, obj[key], None))
            walk_val(obj[key], ftype, nodes, path + [key])

    def walk_val(val, typ, nodes, path):
        if val is None:
            return
        if is_non_null_type(typ):
            return walk_val(val, typ.of_type, nodes, path)
        if is_list_type(typ):
            for i, item in enumerate(val[:1]):
                out.append((path + [i], typ.of_type, False, item, None))
                walk_val(item, typ.of_type, nodes, path + [i])
            return
        if is_leaf_type(typ):
            return
        if is_abstract_type(typ):
            rt = schema.get_type(val["__typename"])
        else:
            rt = typ
        walk_obj(val, rt, nodes, path, False)

    root_t = schema.query_type
    walk_obj(data, root_t, op.selection_set if hasattr(op, "selection_set") else op, [], True)
    return out


def get_path(d, path):
    for p in path:
        d = d[p]
    return d


def set_path(d, path, value, delete=False):
    d = copy.deepcopy(d)
    cur = d
    for p in path[:-1]:
        cur = cur[p]
    if delete:
        del cur[path[-1]]
    else:
        cur[path[-1]] = value
    return d


REPLACEMENTS = {
    "bool": True, "int": 5, "float": 1.5, "string": "abc", "numeric_string": "5", "float_string": "1.5",
    "bool_string": "true", "array": ["x"], "object": {"k": "v"},
}


def json_kind(v):
    if isinstance(v, bool):
        return "bool"
    if isinstance(v, int):
        return "int"
    if isinstance(v, float):
        return "float"
    if isinstance(v, str):
        return "string"
    if isinstance(v, list):
        return "array"
    if isinstance(v, dict):
        return "object"
    return "null"


def corruptions(schema, points, possible_names):
    """Single-point corruptions that contradict the schema (so the model must reject them)."""
    out = []
    for path, typ, cond, value, _ in points:
        if typ == "__typename":
            out.append(("bad_typename", path, "Zzz", {"declared": "__typename", "replacement": "unknown_type"}))
            other = [n for n in ("A", "B", "C", "D") if n not in possible_names(path)]
            if other:
                out.append(("bad_typename", path, other[0], {"declared": "__typename", "replacement": "impossible_type"}))
            out.append(("drop_key", path, None, {"declared": "__typename", "replacement": "removed"}))
            continue
        if isinstance(path[-1], int):
            # list item: null only where the item type is non-null
            if is_non_null_type(typ):
                out.append(("null_nonnull", path, None, {"declared": "item:" + str(typ), "replacement": "null"}))
            continue
        named = get_named_type(typ).name
        if not cond:
            out.append(("drop_key", path, None, {"declared": str(typ), "replacement": "removed"}))
            if is_non_null_type(typ):
                out.append(("null_nonnull", path, None, {"declared": str(typ), "replacement": "null"}))
        if value is None:
            continue
        inner = typ.of_type if is_non_null_type(typ) else typ
        if is_list_type(inner):
            declared = "list"
            bad = ["string", "object", "int"]
        elif not is_leaf_type(get_named_type(inner)):
            declared = "object"
            bad = ["string", "array", "int"]
        elif is_enum_type(get_named_type(inner)):
            declared = "enum"
            bad = ["string", "int", "array"]     # "abc" is not a member
        else:
            declared = named
            bad = {
                "ID": ["bool", "array", "object", "float"],        # ids are transported as strings; ints are a kind change too
                "String": ["bool", "int", "float", "array", "object"],
                "Int": ["bool", "float", "string", "numeric_string", "array", "object"],
                "Float": ["bool", "string", "float_string", "array", "object"],
                "Boolean": ["int", "string", "bool_string", "array", "object"],
            }.get(named, [])
            if named == "ID":
                bad = bad + ["int"]
        for k in bad:
            out.append(("wrong_kind", path, REPLACEMENTS[k], {"declared": declared, "replacement": k}))
    return out


# ------------------------------------------------------------------------------------------- main
def main():
    P = load_payload()
    pkg = import_pkg(P["package"])
    schema = build_schema(gamma.SDL)
    is_async = P.get("async", False)
    quick = P.get("quick", True)
    do_corrupt = P.get("corrupt", False)
    ctx = Ctx(schema)
    handler = make_handler(ctx)
    results = []
    if is_async:
        loop = asyncio.new_event_loop()
        hc = httpx.AsyncClient(transport=httpx.MockTransport(handler))
    else:
        loop = None
        hc = httpx.Client(transport=httpx.MockTransport(handler))
    client = pkg.Client(url="http://x/graphql", http_client=hc)
    methods = {m.replace("_", "").lower(): m for m in dir(client) if not m.startswith("_")}
    for item in P["ops"]:
        name, op = item["name"], item["op"]
        rec = {"name": name, "runs": [], "corruptions": [], "model": None, "error": None}
        try:
            mod = import_pkg(f"{P['package']}.{item['module']}")
            root_cls = getattr(mod, item["cls"])
            fi = None
            for fname, f in root_cls.model_fields.items():
                if (f.alias or fname) == op["root"]:
                    fi = f
            pr = project_annotation(fi.annotation)
            pr["required"] = fi.is_required()
            rec["model"] = pr
            meth = getattr(client, methods[name.lower()])
        except Exception as ex:  # noqa
            rec["error"] = f"{type(ex).__name__}: {ex}"[:300]
            results.append(rec)
            continue
        first_full = {}
        for (t, mode, n) in response_plan(op, quick):
            ctx.root = gamma.root_value(op["root"], t, mode, n)
            kw = {}
            run = {"t": t, "mode": mode, "n": n}
            try:
                # arguments of the generated method are the directive variables
                import inspect
                sig = inspect.signature(meth)
                if "inc" in sig.parameters:
                    kw["inc"] = mode != "off"
                if "skp" in sig.parameters:
                    kw["skp"] = mode == "off"
                out = loop.run_until_complete(meth(**kw)) if is_async else meth(**kw)
                body = ctx.last
                ref = graphql_sync(schema, body["query"], root_value=ctx.root, variable_values=body.get("variables") or {})
                data = ref.data
                if ref.errors:
                    run["server_errors"] = [str(e)[:200] for e in ref.errors][:2]
                dumped = out.model_dump(by_alias=True, exclude_unset=True, mode="json")
                run["accepted"] = True
                run["dump_equal"] = dumped == data
                if not run["dump_equal"]:
                    run["dumped"] = dumped
                    run["data"] = data
                run["enum_ok"] = enum_check(out, data)
                run["typename_ok"] = typename_check(out, data)
                if mode == "full" and (t not in first_full) and n >= 1:
                    first_full[t] = (data, body)
            except Exception as ex:  # noqa
                run["accepted"] = False
                run["exc"] = f"{type(ex).__name__}: {ex}"[:400]
                run["data"] = None
                try:
                    body = ctx.last
                    ref = graphql_sync(schema, body["query"], root_value=ctx.root, variable_values=body.get("variables") or {})
                    run["data"] = ref.data
                    run["server_errors"] = [str(e)[:200] for e in (ref.errors or [])][:2]
                except Exception:  # noqa
                    pass
            rec["runs"].append(run)
        if do_corrupt:
            for t, (data, body) in first_full.items():
                try:
                    doc = parse(body["query"])
                    vfull = body.get("variables") or {}
                    voff = {k: (not v) for k, v in vfull.items()}
                    pts = typed_points(schema, doc, data, vfull, voff)
                    named, _ = gamma.ROOT_TYPE[op["root"]]

                    def possible_names(path):
                        # possible types of the position holding this __typename
                        if len([p for p in path if not isinstance(p, int)]) <= 2:
                            return gamma.POSSIBLE[named]
                        return ["A", "B", "C"]        # nested friend: J
                    for kind, path, value, feat in corruptions(schema, pts, possible_names):
                        bad = set_path(data, path, value, delete=(kind == "drop_key"))
                        try:
                            root_cls.model_validate(bad)
                            rejected = False
                        except pydantic.ValidationError:
                            rejected = True
                        except Exception as ex:  # noqa
                            rejected = "other:" + type(ex).__name__
                        rec["corruptions"].append({"t": t, "kind": kind, "path": path, "feat": feat, "rejected": rejected})
                except Exception as ex:  # noqa
                    rec["corruptions"].append({"t": t, "kind": "machinery", "error": f"{type(ex).__name__}: {ex}"[:300]})
        results.append(rec)
    emit({"results": results})


if __name__ == "__main__":
    main()
