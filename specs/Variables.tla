------------------------------ MODULE Variables ------------------------------
(* C03 / C06 / C07 (argument side): how one argument of a generated method travels to the server.                     *)
(* Code: arguments.ArgumentsGenerator (signature + variables dict, serialize(arg) for custom scalars), the generated     *)
(* input models (alias, Optional, PlainSerializer), base client _convert_dict_to_json_serializable / _convert_value,     *)
(* json + to_jsonable_python, and on the other side GraphQL variable coercion.                                          *)
(* One behaviour = one call: Call -> BuildDict -> FilterUnset -> Convert -> Send -> ServerCoerce.                        *)
EXTENDS Naturals, Sequences, FiniteSets, TLC

CONSTANTS Wrappers, Kinds, Positions, States,
          Deviations          \* {} = the intended design; {"toplevel_serialize_whole"} = as built (finding F13)

\* wrapper shapes of the GraphQL type of the argument / input field
Nullable(w)     == w \in {"T", "[T]", "[T!]", "[[T!]]"}
IsList(w)       == w \notin {"T", "T!"}
ItemNullable(w) == w \in {"[T]", "[T]!"}
Nested(w)       == w = "[[T!]]"
\* kinds of the named type: "int" built-in scalar, "enum", "ser" custom scalar with serialize (and parse), "native" custom
\* scalar configured with a pydantic-native type only, "raw" unconfigured custom scalar, "input" input object
\* positions: "var" top-level operation variable, "field" field of an input object passed as a variable,
\*            "nested" field of an input object nested in another one;
\*            "recursive" field of a self-referential input (input Rec { a: T next: Rec }) two links down;
\*            "sub_var" / "sub_field": the same two for a SUBSCRIPTION method: the variables travel in the payload of the
\*            graphql-transport-ws subscribe frame (_send_subscribe) instead of an HTTP body, through the same conversion;
\*            "result_union": the scalar selected under the SAME key in two members of a union held by a nullable list of
\*            nullable items ([U]: the Optional sits two levels down); the parse function runs once per occurrence, not once
\*            per member that selects the key;
\*            "result" / "result_nested" / "result_fragment": the same machine read in the other direction (C07, result
\*            side): the server returns the value, `wire` is what reaches user code, serLog logs the user's PARSE function
\* states of the call for this argument: "omitted", "none", "val", "val_nullitem" (a null item in the list), "empty" ([]),
\*   "val_falsy" (a valid value that is falsy in Python: 0, a zero duration, an empty object),
\*   "val_nullfirst" (the list STARTS with a null item)
IsResult(p) == p \in {"result", "result_nested", "result_fragment", "result_union"}
ValidCase(w, s) ==
  /\ s \in {"omitted", "none"} => Nullable(w)
  /\ s \in {"val_nullitem", "val_nullfirst"} => IsList(w) /\ ItemNullable(w)
  /\ s = "empty" => IsList(w)
\* dflt: the operation declares a default for the variable ($a: Int = 77): when the caller omits the argument the variable
\* must be ABSENT from the payload so that the server applies that default
Cases == {c \in [w : Wrappers, kind : Kinds, pos : Positions, state : States, dflt : BOOLEAN] :
            /\ ValidCase(c.w, c.state)
            /\ c.pos = "recursive" => Nullable(c.w)      \* (a required field would have to be given on every link of the chain)
            /\ c.dflt => (c.pos \in {"var", "sub_var"} /\ c.w \in {"T", "[T!]"} /\ c.kind \in {"int", "enum"})
            /\ IsResult(c.pos) => (c.state # "omitted" /\ c.kind \in {"ser", "native", "raw"})
            /\ c.state = "val_falsy" => c.kind \in {"int", "ser", "raw"}}

\* ---- values: <<"v", i>> the i-th leaf value the caller passes, <<"null">>, <<"L", ...>> -----------------------
CallerValue(w, s) ==
  CASE s \in {"omitted", "none"} -> <<"null">>
    [] s = "empty" -> <<"L">>
    [] s = "val_falsy" -> IF IsList(w) THEN (IF Nested(w) THEN <<"L", <<"L", <<"v", 0>>>>>> ELSE <<"L", <<"v", 0>>, <<"v", 1>>>>) ELSE <<"v", 0>>
    [] ~IsList(w) -> <<"v", 1>>
    [] Nested(w) -> <<"L", <<"L", <<"v", 1>>, <<"v", 2>>>>, <<"L", <<"v", 3>>>>>>
    [] s = "val_nullitem" -> <<"L", <<"v", 1>>, <<"null">>, <<"v", 2>>>>
    [] s = "val_nullfirst" -> <<"L", <<"null">>, <<"v", 1>>, <<"v", 2>>>>
    [] OTHER -> <<"L", <<"v", 1>>, <<"v", 2>>>>
RECURSIVE Leaves(_)
Leaves(t) == IF t[1] = "v" THEN <<t[2]>> ELSE IF t[1] = "null" THEN <<>>
             ELSE LET RECURSIVE Go(_)
                      Go(i) == IF i > Len(t) THEN <<>> ELSE Leaves(t[i]) \o Go(i + 1) IN Go(2)
\* what must arrive: every non-null leaf in wire form (serialize(value) for "ser", the name for "enum", ...)
RECURSIVE WireOf(_)
WireOf(t) == IF t[1] = "v" THEN <<"w", t[2]>> ELSE IF t[1] = "null" THEN t
             ELSE <<"L">> \o [i \in 1..(Len(t) - 1) |-> WireOf(t[i + 1])]

\* ---- the call as a state machine --------------------------------------------------------------------------------
VARIABLES c,            \* the case
          stage,        \* "call" | "dict" | "filtered" | "converted" | "sent" | "coerced"
          present,      \* is the variable (or input field) part of the payload?
          wire,         \* its value in the payload
          serLog,       \* what the user's serialize function was called with, in order
          delivered     \* what the resolver receives ("absent" = the server applies its own default)
vars == <<c, stage, present, wire, serLog, delivered>>

IsTopVar(p) == p \in {"var", "sub_var"}
Transport(p) == IF p \in {"sub_var", "sub_field"} THEN "subscribe_frame" ELSE "http_body"
AsBuiltWhole == "toplevel_serialize_whole" \in Deviations /\ IsTopVar(c.pos) /\ c.kind = "ser"
Init == /\ c \in Cases /\ stage = "call" /\ present = TRUE /\ wire = <<"null">> /\ serLog = <<>> /\ delivered = <<"pending">>

\* variables: Dict[str, object] = {"name": arg}   or   {"name": serialize(arg)}
BuildDict ==
  /\ stage = "call" /\ stage' = "dict"
  /\ LET val == CallerValue(c.w, c.state) IN
     \/ \* intended: serialize once per non-null occurrence (for input fields pydantic's PlainSerializer does that)
        /\ serLog' = IF c.kind = "ser" THEN [i \in 1..Len(Leaves(val)) |-> "leaf"] ELSE <<>>
        /\ wire' = WireOf(val)
     \/ \* as built (deviation): serialize(arg) whatever arg is: UNSET, None, a whole list or a value
        /\ AsBuiltWhole
        /\ serLog' = << CASE c.state = "omitted" -> "unset" [] c.state = "none" -> "none"
                          [] IsList(c.w) -> "whole_list" [] OTHER -> "leaf" >>
        /\ wire' = IF ~IsList(c.w) /\ c.state \notin {"omitted", "none"} THEN WireOf(val) ELSE <<"garbage">>
  /\ UNCHANGED <<c, present, delivered>>
\* if value is not UNSET / model_dump(exclude_unset=True)
FilterUnset ==
  /\ stage = "dict" /\ stage' = "filtered"
  \* (as built, the result of serialize(UNSET) is a value like any other and is sent)
  /\ present' = (c.state # "omitted" \/ wire = <<"garbage">>)
  /\ UNCHANGED <<c, wire, serLog, delivered>>
Convert == stage = "filtered" /\ stage' = "converted" /\ UNCHANGED <<c, present, wire, serLog, delivered>>
Send == stage = "converted" /\ stage' = "sent" /\ UNCHANGED <<c, present, wire, serLog, delivered>>
\* GraphQL variable / input coercion on the server
ServerCoerce ==
  /\ stage = "sent" /\ stage' = "coerced"
  \* input coercion wraps a value that is not a list into a list of one item, once per list level
  /\ delivered' = IF ~present THEN (IF c.dflt THEN <<"default">> ELSE <<"absent">>)
                  ELSE IF IsList(c.w) /\ wire[1] \notin {"L", "null"}
                       THEN (IF Nested(c.w) THEN <<"L", <<"L", wire>>>> ELSE <<"L", wire>>)
                       ELSE wire
  /\ UNCHANGED <<c, present, wire, serLog>>
Next == BuildDict \/ FilterUnset \/ Convert \/ Send \/ ServerCoerce
Spec == Init /\ [][Next]_vars

\* ---- properties ---------------------------------------------------------------------------------------------------
Done == stage = "coerced"
Intended == IF c.state = "omitted" THEN (IF c.dflt THEN <<"default">> ELSE <<"absent">>) ELSE WireOf(CallerValue(c.w, c.state))
DeliveredIsIntended == Done => delivered = Intended
OmittedAbsent == (Done /\ c.state = "omitted") => ~present
NoneIsNull == (Done /\ c.state = "none") => (present /\ wire = <<"null">>)
SerializeOncePerNonNull ==
  (Done /\ c.kind = "ser") => serLog = [i \in 1..Len(Leaves(CallerValue(c.w, c.state))) |-> "leaf"]
NeverSerializeNoneOrOmitted == \A i \in 1..Len(serLog) : serLog[i] \notin {"none", "unset"}
OnlySerScalarsSerialized == c.kind # "ser" => serLog = <<>>
\* as built: the listed properties may fail only where the recorded deviation is active
DevActive == AsBuiltWhole /\ (c.state \in {"omitted", "none"} \/ IsList(c.w))
DeliveredIsIntendedK == DeliveredIsIntended \/ DevActive
OmittedAbsentK == OmittedAbsent \/ DevActive
NoneIsNullK == NoneIsNull \/ DevActive
SerializeOnceK == SerializeOncePerNonNull \/ DevActive
NeverSerializeNoneK == NeverSerializeNoneOrOmitted \/ DevActive
\* a required argument cannot be omitted: the signature has no default for it
RequiredNotOmittable == c.state = "omitted" => Nullable(c.w)
=============================================================================
