------------------------------ MODULE SchemaCopy ------------------------------
(* C16 -- the graphqlschema strategy reproduces the schema.                                                            *)
(* Code: graphql_schema_generators/{schema,named_types,fields,directives,utils}.py.  A schema is a set of elements (types *)
(* of each kind, fields, arguments, input fields, enum values, directives, root bindings, the schema itself), each with  *)
(* attributes.  Emit copies, per element kind, a fixed set of attributes into the generated module; Rebuild evaluates    *)
(* the module (lazy field maps against the finished type map).  TLC's job is combinatorial: which FEATURES of the SDL    *)
(* are switched on.                                                                                                      *)
EXTENDS Naturals, Sequences, FiniteSets, TLC

CONSTANTS Features,        \* names of the SDL features that can be switched on
          Needs,           \* feature -> set of <<element kind, attribute>> pairs the source schema then carries
          Copied,          \* the <<element kind, attribute>> pairs the generator copies (as built)
          MaxOn,           \* at most this many features on at once (all = Cardinality(Features))
          Formats          \* target formats explored: "py", "graphql", "gql"

Base == {<<"object", "name">>, <<"object", "fields">>, <<"field", "type">>, <<"schema", "query">>, <<"scalar", "name">>}
VARIABLES on, format, stage, source, emitted, rebuilt
vars == <<on, format, stage, source, emitted, rebuilt>>

Init == /\ on \in {S \in SUBSET Features : Cardinality(S) <= MaxOn} /\ format \in Formats
        /\ stage = "loaded" /\ source = Base \cup UNION {Needs[f] : f \in on} /\ emitted = {} /\ rebuilt = {}
\* generate_schema_module / print_schema: every attribute the generator knows about is written out
Emit == /\ stage = "loaded" /\ stage' = "emitted"
        /\ emitted' = IF format = "py" THEN source \cap Copied ELSE source        \* SDL output goes through print_schema
        /\ UNCHANGED <<on, format, source, rebuilt>>
\* exec of the module / parsing the SDL back
Rebuild == /\ stage = "emitted" /\ stage' = "rebuilt" /\ rebuilt' = emitted /\ UNCHANGED <<on, format, source, emitted>>
Next == Emit \/ Rebuild
Spec == Init /\ [][Next]_vars

RebuiltEqualsSource == stage = "rebuilt" => rebuilt = source
CopiesEverything == \A f \in Features : Needs[f] \subseteq Copied
=============================================================================
