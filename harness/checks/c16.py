"""C16 -- the graphqlschema strategy reproduces the schema.

leg 1: TLC checks SchemaCopy (feature vector -> source attributes -> Emit -> Rebuild) for every feature vector up to a bound
       and exports the vectors.
leg 2: each vector is rendered to SDL, the strategy is run for .py / .graphql / .gql with chosen variable names, the generated
       module is executed (or the SDL parsed back) and the resulting schema is compared with the source: print_schema and
       a structural walk that names the <<element kind, attribute>> pairs that differ.  A few vectors also go through the
       introspection source (loop-back HTTP endpoint running graphql-core).
leg 3: (vector, format) -> lost-attributes traces are validated by SchemaCopy_Trace.
"""
import json
import random

from ..common import Verdict, run_tlc, tlc_must_pass, validate_traces_parallel, pmap, Machinery, seed, run_py
from ..gen import write_job, generate

CFG = """SPECIFICATION Spec
CONSTANTS Features <- Feats
 Needs <- NeedsOf
 Copied <- CopiedAsBuilt
 MaxOn = {k}
 Formats <- AllFormats
INVARIANT RebuiltEqualsSource
INVARIANT CopiesEverything
CHECK_DEADLOCK FALSE
"""
ML = '"""\nMulti\nline "quoted" \\\\ text\n  indented # = é\n"""'
# a Markdown-style description: trailing blanks (hard line break), a whitespace-only line, a tab
ML2 = '"""\nhard break  \nnext\t\n   \nlast line\n"""'


def render(on):
    on = set(on)
    d = ML + "\n" if "descriptions" in on else ""
    q = "RootQ" if "custom_roots" in on else "Query"
    m = "RootM" if "custom_roots" in on else "Mutation"
    parts = ["enum Size { SMALL LARGE }"]
    qf = ["ping: String", "item(id: ID!): Item"]
    d2 = ML2 + "\n" if "descriptions" in on else ""
    parts.append(f"{d}type Item {{ {d if 'descriptions' in on else ''}id: ID! {d2}name: String }}")
    if "iface_of_iface" in on:
        parts.append("interface Node { id: ID! }\ninterface Named implements Node { id: ID! name: String }\n"
                     "type Person implements Named & Node { id: ID! name: String }")
        qf.append("person: Person")
        qf.append("named: Named")
    if "union" in on:
        parts.append('"A union" union SearchResult = Item | Other\ntype Other { x: Int }')
        qf.append("search(text: String!): [SearchResult!]")
    if "enum_deprecated" in on:
        parts.append(f'enum Color {{ {d if "descriptions" in on else ""}RED GREEN @deprecated(reason: "old one") BLUE @deprecated }}')
        qf.append("color: Color")
    if "input_defaults" in on:
        parts.append(f'{d}input Filter {{ {d if "descriptions" in on else ""}i: Int = 5 f: Float = 1.5 s: String = "abc" b: Boolean = true n: String = null '
                     'e: Size = LARGE l: [Int!] = [1, 2] ll: [[Int]] = [[1], [null]] idn: ID = 7 req: Int! = 3 }')
        qf.append("filtered(f: Filter): Int")
    if "arg_defaults" in on:
        qf.append(f'paged({d if "descriptions" in on else ""}first: Int = 10, after: ID = "x", flag: Boolean = false, sizes: [Size!] = [SMALL], none: String = null): Int')
    if "deprecations" in on:
        parts.append('type Old { a: Int @deprecated(reason: "use b") b(x: Int @deprecated(reason: "no x"), y: Int): Int c: Int @deprecated }\n'
                     'input OldIn { a: Int @deprecated(reason: "gone") b: Int }')
        qf.append("old(i: OldIn): Old")
    if "repeatable_directive" in on:
        parts.append(f'{d}directive @tag(name: String!) repeatable on FIELD_DEFINITION | OBJECT | ENUM_VALUE')
    if "directive_named_like_codegen_helper" in on:
        parts.append('directive @mixin(from: String, import: String, extra: Int = 1) repeatable on FIELD | FRAGMENT_DEFINITION | OBJECT\n'
                     'directive @unset(reason: String) on FIELD_DEFINITION')
    if "directive_args" in on:
        parts.append('directive @limit(max: Int = 100, mode: Size = SMALL, names: [String!] = ["a"]) on FIELD_DEFINITION | ARGUMENT_DEFINITION | QUERY')
    if "specified_by" in on:
        parts.append(f'{d}scalar DateTime @specifiedBy(url: "https://example.com/date-time")\nscalar Plain')
        qf.append("now: DateTime")
        qf.append("plain: Plain")
    if "nested_wrappers" in on:
        qf.append("matrix(m: [[ID!]!]!, o: [[Int]]): [[Int!]]!")
    if "tricky_strings" in on:
        qf.append('tricky(s: String = "it\'s \\"q\\" \\\\ \\n line # = é \\u0041", t: String = ""): String')
        parts.append('"single \\"quoted\\" \'desc\' \\\\" type Quoted { "it\'s" x: Int }')
        qf.append("quoted: Quoted")
    if "numbers" in on:
        qf.append("nums(big: Float = 1e+21, small: Float = 1.0e-7, neg: Int = -5, bigint: Float = 12345678901234567890, z: Float = 0.0, i: Float = 3): Float")
    if "object_defaults" in on:
        parts.append("input Inner { x: Int y: [Int] e: Size deep: Deep }\ninput Deep { z: String w: [Inner!] }\n"
                     'input Nested { a: Int = 1 inner: Inner = {x: 1, y: [1, 2], e: LARGE, deep: {z: null, w: [{x: 2}]}} list: [Inner!] = [{x: 1}, {e: SMALL}] }')
        qf.append("nested(n: Nested = {a: 2, inner: {x: 3}}): Int")
    parts.append(f"type {q} {{ " + " ".join(qf) + " }")
    roots = [f"query: {q}"]
    if "mutation" in on or "custom_roots" in on:
        parts.append(f"type {m} {{ rename(id: ID!, name: String!): Item }}")
        roots.append(f"mutation: {m}")
    if "subscription" in on:
        parts.append("type Subscription { ticks: Int! }")
        roots.append("subscription: Subscription")
    if "custom_roots" in on or "schema_description" in on:
        sd = '"""Schema docs\nsecond line"""\n' if "schema_description" in on else ""
        parts.append(sd + "schema { " + " ".join(roots) + " }")
    return "\n\n".join(parts) + "\n"


COMPARE = r'''
import json, sys, importlib.util
from graphql import build_schema, print_schema, GraphQLSchema, is_object_type, is_interface_type, is_union_type, is_enum_type, is_input_object_type, is_scalar_type, parse, build_ast_schema
job, fmt, target, svar, tvar = sys.argv[1:6]
src = build_ast_schema(parse(open(job + "/schema.graphql").read()), assume_valid=True)
out = {"importable": True, "names_ok": True, "lost": []}
try:
    if fmt == "py":
        spec = importlib.util.spec_from_file_location("gen_schema_mod", job + "/" + target)
        mod = importlib.util.module_from_spec(spec); spec.loader.exec_module(mod)
        out["names_ok"] = isinstance(getattr(mod, svar, None), GraphQLSchema) and isinstance(getattr(mod, tvar, None), dict)
        reb = getattr(mod, svar)
    else:
        reb = build_schema(open(job + "/" + target).read())
except Exception as ex:
    out["importable"] = False; out["error"] = type(ex).__name__ + ": " + str(ex)[:300]
    print("@@" + json.dumps(out)); sys.exit(0)
lost = set()
def cmp(kind, attr, a, b):
    if a != b: lost.add((kind, attr))
def args(kind_owner, sa, ra):
    cmp(kind_owner, "args", sorted(sa), sorted(ra))
    for n in set(sa) & set(ra):
        x, y = sa[n], ra[n]
        cmp("argument", "type", str(x.type), str(y.type)); cmp("argument", "default_value", repr(x.default_value), repr(y.default_value))
        cmp("argument", "description", x.description, y.description); cmp("argument", "deprecation_reason", x.deprecation_reason, y.deprecation_reason)
cmp("schema", "query", getattr(src.query_type, "name", None), getattr(reb.query_type, "name", None))
cmp("schema", "mutation", getattr(src.mutation_type, "name", None), getattr(reb.mutation_type, "name", None))
cmp("schema", "subscription", getattr(src.subscription_type, "name", None), getattr(reb.subscription_type, "name", None))
cmp("schema", "description", src.description, reb.description)
st = {n: t for n, t in src.type_map.items() if not n.startswith("__")}
rt = {n: t for n, t in reb.type_map.items() if not n.startswith("__")}
cmp("schema", "types", sorted(st), sorted(rt))
for n in set(st) & set(rt):
    a, b = st[n], rt[n]
    if type(a) is not type(b):
        lost.add(("type", "kind")); continue
    k = "object" if is_object_type(a) else "interface" if is_interface_type(a) else "union" if is_union_type(a) else "enum" if is_enum_type(a) else "input" if is_input_object_type(a) else "scalar"
    cmp(k, "description", a.description, b.description)
    if k in ("object", "interface"):
        cmp(k, "interfaces", sorted(i.name for i in a.interfaces), sorted(i.name for i in b.interfaces))
        cmp(k, "fields", list(a.fields), list(b.fields))
        for fn in set(a.fields) & set(b.fields):
            x, y = a.fields[fn], b.fields[fn]
            cmp("field", "type", str(x.type), str(y.type)); cmp("field", "description", x.description, y.description)
            cmp("field", "deprecation_reason", x.deprecation_reason, y.deprecation_reason); args("field", x.args, y.args)
    elif k == "union":
        cmp(k, "types", [t.name for t in a.types], [t.name for t in b.types])
    elif k == "enum":
        cmp(k, "values", list(a.values), list(b.values))
        for vn in set(a.values) & set(b.values):
            x, y = a.values[vn], b.values[vn]
            cmp("enum_value", "value", x.value, y.value); cmp("enum_value", "description", x.description, y.description)
            cmp("enum_value", "deprecation_reason", x.deprecation_reason, y.deprecation_reason)
    elif k == "input":
        cmp(k, "fields", list(a.fields), list(b.fields))
        for fn in set(a.fields) & set(b.fields):
            x, y = a.fields[fn], b.fields[fn]
            cmp("input_field", "type", str(x.type), str(y.type)); cmp("input_field", "default_value", repr(x.default_value), repr(y.default_value))
            cmp("input_field", "description", x.description, y.description); cmp("input_field", "deprecation_reason", x.deprecation_reason, y.deprecation_reason)
    else:
        cmp(k, "specified_by_url", a.specified_by_url, b.specified_by_url)
sd = {d.name: d for d in src.directives}; rd = {d.name: d for d in reb.directives}
cmp("schema", "directives", sorted(sd), sorted(rd))
for n in set(sd) & set(rd):
    x, y = sd[n], rd[n]
    cmp("directive", "locations", sorted(l.name for l in x.locations), sorted(l.name for l in y.locations))
    cmp("directive", "is_repeatable", x.is_repeatable, y.is_repeatable); cmp("directive", "description", x.description, y.description)
    args("directive", x.args, y.args)
if print_schema(src) != print_schema(reb):
    lost.add(("schema", "printed_sdl"))
out["lost"] = sorted(list(x) for x in lost)
print("@@" + json.dumps(out))
'''


def run(tier, work, replay=None):
    v = Verdict("C16", tier)
    q = tier == "quick"
    out = work.dir / "vectors.json"
    res = run_tlc("SchemaCopy_MC", CFG.format(k=2 if q else 3), work.sub("tlc"), env={"OUT_FILE": str(out), "MAXON": "2" if q else "3"}, workers=8, coverage=q)
    tlc_must_pass(res, "SchemaCopy_MC")
    v.add_tlc(res, f"SchemaCopy: every feature vector with <= {2 if q else 3} features on x 3 formats")
    vectors = json.loads(out.read_text())
    rnd = random.Random(seed())
    allf = sorted({f for vec in vectors for f in vec})
    vectors.append(allf)
    for _ in range(6 if q else 60):
        vectors.append(sorted(rnd.sample(allf, rnd.randint(4, len(allf) - 1))))
    tasks = []
    for i, vec in enumerate(vectors):
        fmts = ["py", "graphql", "gql"] if (not q or i % 3 == 0 or len(vec) > 3) else [["py", "graphql", "gql"][i % 3], "py"]
        for fmt in dict.fromkeys(fmts):
            tasks.append((i, vec, fmt))

    def one(t):
        i, vec, fmt = t
        sdl = render(vec)
        names = ("schema", "type_map") if i % 2 == 0 else ("my_schema", "the_types")
        target = {"py": "out_schema.py", "graphql": "out.graphql", "gql": "out.gql"}[fmt]
        job = write_job(work.dir / f"sc_{i}_{fmt}", schema=sdl, queries=None, package=None,
                        options={"target_package_name": None, "include_comments": None, "target_file_path": target,
                                 "schema_variable_name": names[0], "type_map_variable_name": names[1]})
        r = generate(job, "graphqlschema")
        if r["exc_class"]:
            return t, sdl, {"gen": r["exc_class"], "msg": r["exc_msg"]}
        p = run_py(["-c", COMPARE, str(job), fmt, target, names[0], names[1]])
        line = [ln for ln in p.stdout.splitlines() if ln.startswith("@@")]
        import shutil
        shutil.rmtree(job, ignore_errors=True)
        if not line:
            return t, sdl, {"gen": "compare_failed", "msg": p.stderr[-400:]}
        return t, sdl, json.loads(line[-1][2:])

    outs = pmap(one, tasks)
    # ---- the schemas of the repository's own example projects (real-world SDL as its authors wrote it), both target kinds
    from .. import corpus
    import tomllib

    def one_corpus(t):
        proj, fmt = t
        sec = tomllib.loads((proj["dir"] / proj["config"]).read_text()).get("tool", {}).get("ariadne-codegen", {})
        sp = proj["dir"] / sec.get("schema_path", "schema.graphql")
        if not sp.is_file():
            return t, None, None
        sdl = sp.read_text()
        target = {"py": "out_schema.py", "graphql": "out.graphql"}[fmt]
        job = write_job(work.dir / ("scc_" + proj["name"].replace(":", "_") + "_" + fmt), schema=sdl, queries=None, package=None,
                        options={"target_package_name": None, "include_comments": None, "target_file_path": target,
                                 "schema_variable_name": "schema", "type_map_variable_name": "type_map"})
        r = generate(job, "graphqlschema")
        if r["exc_class"]:
            return t, sdl, {"gen": r["exc_class"], "msg": r["exc_msg"]}
        p = run_py(["-c", COMPARE, str(job), fmt, target, "schema", "type_map"])
        line = [ln for ln in p.stdout.splitlines() if ln.startswith("@@")]
        import shutil
        shutil.rmtree(job, ignore_errors=True)
        return t, sdl, (json.loads(line[-1][2:]) if line else {"gen": "compare_failed", "msg": p.stderr[-400:]})
    couts = pmap(one_corpus, [(pj, fmt) for pj in corpus.projects() for fmt in ("py", "graphql")])
    n_corpus = 0
    for (proj, fmt), sdl, o in couts:
        if o is None:
            continue
        n_corpus += 1
        feats = {"corpus": proj["name"], "format": fmt, "features": ["corpus"], "n_features": 0}
        if "gen" in o:
            if o["gen"] == "compare_failed":
                raise Machinery("schema comparison helper failed: " + o["msg"])
            v.violation(feats, f"gen_crash:{o['gen']}", {"message": o["msg"]})
            continue
        if not o["importable"]:
            v.violation(feats, "generated_file_does_not_load", {"error": o.get("error")})
        for kind, attr in o.get("lost", []):
            v.violation(dict(feats, lost=f"{kind}.{attr}"), f"schema_differs:{kind}.{attr}", {"corpus": proj["name"]})
    v.cov["corpus_schemas"] = n_corpus
    traces, owners = [], []
    for (i, vec, fmt), sdl, o in outs:
        feats = {"features": vec, "format": fmt, "n_features": len(vec)}
        if "gen" in o:
            if o["gen"] == "compare_failed":
                raise Machinery("schema comparison helper failed: " + o["msg"])
            v.violation(feats, f"gen_crash:{o['gen']}", {"sdl": sdl, "message": o["msg"]})
            continue
        if not o["importable"]:
            v.violation(feats, "generated_file_does_not_load", {"sdl": sdl, "error": o.get("error")})
        elif not o["names_ok"]:
            v.violation(feats, "variable_names_not_used", {"sdl": sdl})
        for kind, attr in o.get("lost", []):
            v.violation(dict(feats, lost=f"{kind}.{attr}"), f"schema_differs:{kind}.{attr}", {"sdl": sdl})
        traces.append([{"e": "case", "on": vec, "format": fmt},
                       {"e": "rebuilt", "lost": [f"{k}.{a}" for k, a in o.get("lost", [])], "importable": bool(o["importable"]), "names_ok": bool(o["names_ok"])}])
        owners.append(feats)
    v.cov["evaluations"] = len(outs)
    rs, rejected, inv = validate_traces_parallel("SchemaCopy_Trace", "SchemaCopy_Trace.cfg", traces, work.sub("tv"), chunk_size=400,
                                                 env={"OUT_FILE": "", "MAXON": "2"})
    for r3 in rs:
        v.add_tlc(r3, "SchemaCopy_Trace")
    bad = set(rejected) | {t for _, t in inv if t is not None}
    for t in sorted(bad):
        why = [i for i, tt in inv if tt == t]
        v.violation(owners[t], "trace_rejected:" + (",".join(why) or "rebuilt"), {"trace": traces[t]})
    v.cov["traces_validated_against_impl"] = len(traces) - len(bad)
    v.cov["distinct_nontrivial"] = len([1 for vec in vectors if vec])
    v.cov["rule"] = ("feature vectors = every subset of 18 SDL features with at most 2 (quick) / 3 (thorough) on, enumerated by TLC, plus "
                     "the all-on vector and seeded larger subsets; each rendered to SDL and run through the strategy for py / graphql / gql; "
                     "non-trivial = at least one feature on")
    v.cov["exhaustive"] = True
    for k in (1, len(traces) // 2, len(traces) - 1):
        v.sample({"trace": traces[k], "sdl": render(traces[k][0]["on"])[:600]})
    v.assumptions += ["the source schema is the one graphql-core builds from the same SDL", "one concrete representative per literal class (repr of particular floats / strings is outside the model)"]
    return v.finish()
