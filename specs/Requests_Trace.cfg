SPECIFICATION TraceSpec
CONSTANTS NCalls <- TraceMaxCalls
 VarTrees <- AnyTrees
 HeaderModes <- AnyHdr
INVARIANT NoInterference
INVARIANT OwnResponse
INVARIANT CallerStateUntouched
CONSTRAINT Reached
POSTCONDITION Accepted
CHECK_DEADLOCK FALSE
