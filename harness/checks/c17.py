"""C17 -- invalid input is rejected up front, with a typed error and no side effects.

leg 1: TLC checks Pipeline (phases of one command run; violation -> detecting phase / documented exception tables)
       for TypedError, NoSideEffect, NoEffectBeforeChecks, ValidAccepted -- on the documented tables (design) and on the
       as-built tables (known deviations only where KNOWN_FINDINGS says so).
leg 2/3: every catalogued single-constraint violation x every pre-existing target state is planted in a real project and
       the CLI is run in a subprocess under an audit hook; the exception class, the ordered file-system events under the
       target and a before/after snapshot are recorded and the trace is validated by Pipeline_Trace.
"""
import hashlib
import json
import os
import shutil

from ..common import (Verdict, run_tlc, tlc_must_pass, validate_traces_parallel, pmap, Machinery, SPECS, run_py, load_findings)
from ..gen import write_job, generate, toml_val
from .c17_cases import catalogue, SCHEMA, QUERIES, BASE_CLIENT_OPTS, BASE_SCHEMA_OPTS

TARGET_STATES = ["absent", "empty", "previous", "foreign"]


def snapshot(root, rel):
    p = root / rel
    out = {}
    if p.is_file():
        out[rel] = hashlib.sha256(p.read_bytes()).hexdigest()
    elif p.is_dir():
        out[rel + "/"] = "dir"
        for dp, dn, fn in os.walk(p):
            for d in dn:
                if d != "__pycache__":
                    out[os.path.relpath(os.path.join(dp, d), root) + "/"] = "dir"
            for f in fn:
                if "__pycache__" in dp:
                    continue
                fp = os.path.join(dp, f)
                out[os.path.relpath(fp, root)] = hashlib.sha256(open(fp, "rb").read()).hexdigest()
    return out


def config_text(case, opts):
    if case.raw_config == "OLD_SECTION":
        return "[ariadne-codegen]\n" + "\n".join(f"{k} = {toml_val(v)}" for k, v in opts.items()) + "\n"
    if case.raw_config == "SCALAR_NO_TYPE":
        return ("[tool.ariadne-codegen]\n" + "\n".join(f"{k} = {toml_val(v)}" for k, v in opts.items())
                + "\n\n[tool.ariadne-codegen.scalars.Date]\nparse = \"x.parse\"\n")
    if case.raw_config is not None:
        return case.raw_config
    return "[tool.ariadne-codegen]\n" + "\n".join(f"{k} = {toml_val(v)}" for k, v in opts.items()) + "\n"


def plant(job, case, valid=False):
    """Write the project (valid baseline when valid=True, else with the violation planted)."""
    base = dict(BASE_CLIENT_OPTS if case.strategy == "client" else BASE_SCHEMA_OPTS)
    opts = dict(base)
    schema, queries = SCHEMA, QUERIES
    files = {}
    if not valid:
        opts.update(case.opts)
        for d in case.drop:
            opts.pop(d, None)
        schema = case.schema if case.schema is not None else SCHEMA
        queries = case.queries if case.queries is not None else QUERIES
        files = case.files
    job.mkdir(parents=True, exist_ok=True)
    for p in ("schema.graphql", "queries.graphql"):
        if (job / p).is_dir():
            shutil.rmtree(job / p)
        elif (job / p).exists():
            (job / p).unlink()
    for name, content in (("schema.graphql", schema), ("queries.graphql", queries)):
        if isinstance(content, dict):
            (job / name).mkdir()
            for rel, txt in content.items():
                (job / name / rel).write_text(txt)
        else:
            (job / name).write_text(content)
    for rel, txt in files.items():
        (job / rel).parent.mkdir(parents=True, exist_ok=True)
        (job / rel).write_text(txt)
    cfg_name = "pyproject.toml"
    if not valid and case.config_name and not case.no_config:
        cfg_name = case.config_name
    for old in ("pyproject.toml", "custom.toml"):
        if (job / old).exists():
            (job / old).unlink()
    if valid or not case.no_config:
        (job / cfg_name).write_text(config_text(case if not valid else type(case)("v", "-", None, strategy=case.strategy), opts))
    return opts


def target_of(case, opts):
    if case.strategy == "client":
        return opts.get("target_package_name", "gclient") if isinstance(opts.get("target_package_name"), str) else "gclient"
    return opts.get("target_file_path", "out_schema.py")


def run_case(work, idx, case, t0):
    job = work.dir / f"job_{idx}_{t0}"
    # pre-existing target state
    valid_opts = plant(job, case, valid=True)
    vt = target_of(case, valid_opts)
    if t0 == "previous":
        r0 = generate(job, case.strategy)
        if r0["exc_class"]:
            raise Machinery(f"baseline project does not generate: {r0['exc_class']} {r0['exc_msg']}")
    opts = plant(job, case)
    tgt = target_of(case, opts)
    if "/" in tgt or not tgt:
        tgt = vt
    for t in {tgt, vt}:
        if t0 == "empty" and case.strategy == "client":
            (job / t).mkdir(exist_ok=True)
        elif t0 == "foreign":
            if case.strategy == "client":
                (job / t).mkdir(exist_ok=True)
                (job / t / "notes.txt").write_text("hand written\n")
                (job / t / "client.py").write_text("# my own client\n")
            else:
                (job / t).write_text("# hand written schema module\n")
    watch = sorted({tgt, vt})
    before = {}
    for t in watch:
        before.update(snapshot(job, t))
    env = {k: str(v).replace("@job", str(job)) for k, v in case.env.items()}
    r = generate(job, case.strategy, audit=True, config=(case.config_name if case.config_name else None), env=env)
    after = {}
    for t in watch:
        after.update(snapshot(job, t))
    touches = [e for e in r["events"] if isinstance(e, list) and any(e[1] == t or e[1].startswith(t + "/") for t in watch)
               and "__pycache__" not in e[1]]
    rec = {"case": case.id, "context": case.ctx, "strategy": case.strategy, "target0": t0, "exc_class": r["exc_class"], "exc_mro": r.get("exc_mro") or [],
           "exc_msg": (r["exc_msg"] or "")[:300], "changed": before != after, "touches": touches[:40],
           "reported": "Generated files" in (r["output"] or "") if case.strategy == "client" else (r["exc_class"] is None),
           "exit_code": r["exit_code"], "output_tail": (r["output"] or "")[-200:]}
    shutil.rmtree(job, ignore_errors=True)
    return rec


def documented_ok(case, rec):
    if case.documented is None:
        return rec["exc_class"] is None
    if rec["exc_class"] is None:
        return False
    if case.documented == "CodeGenException":
        return "CodeGenException" in rec["exc_mro"]
    return rec["exc_class"] == case.documented


def mc_module(cases, as_built, known):
    """TLA+ tables generated from the catalogue (as_built: violation id -> (phase, raised) observed on the current tree)."""
    ids = sorted({c.key for c in cases})
    by = {c.key: c for c in cases}

    def fn(name, f):
        return f"{name} == [x \\in VSet |-> CASE " + " [] ".join(f'x = "{i}" -> "{f(i)}"' for i in ids) + "]"
    txt = ["---- MODULE Pipeline_MC ----", "EXTENDS Pipeline", "VSet == {" + ", ".join(f'"{i}"' for i in ids) + "}",
           fn("DocPhase", lambda i: by[i].phase if by[i].documented else "never"),
           fn("DocErr", lambda i: by[i].documented or "none"),
           fn("BuiltPhase", lambda i: as_built.get(i, (by[i].phase if by[i].documented else "never", None))[0]),
           fn("BuiltErr", lambda i: as_built.get(i, (None, by[i].documented or "none"))[1]),
           "Known == {" + ", ".join(f'"{i}"' for i in sorted(known)) + "}",
           "AllTargets == {\"absent\", \"empty\", \"previous\", \"foreign\"}",
           "IsValid(x) == DocErr[x] = \"none\"",
           "TypedErrorK == (Done /\\ ~IsValid(v)) => (err = Documented[v] \\/ v \\in Known)",
           "NoSideEffectK == (err # \"none\") => (~touched \\/ v \\in Known)",
           "ValidAcceptedK == (Done /\\ IsValid(v)) => (err = \"none\" /\\ touched /\\ reported)",
           "===="]
    return "\n".join(txt) + "\n"


MC_CFG = """SPECIFICATION Spec
CONSTANTS Violations <- VSet
 DetectPhase <- {phase}
 Documented <- DocErr
 Raised <- {err}
 TargetStates <- AllTargets
INVARIANT TypedErrorK
INVARIANT NoSideEffectK
INVARIANT ValidAcceptedK
PROPERTY NoEffectBeforeChecks
CHECK_DEADLOCK FALSE
"""
TRACE_CFG = MC_CFG.replace("SPECIFICATION Spec", "SPECIFICATION TraceSpec") + "CONSTRAINT Reached\nPOSTCONDITION Accepted\n"


def run(tier, work, replay=None):
    v = Verdict("C17", tier)
    q = tier == "quick"
    cases = catalogue()
    states = ["absent", "previous"] if q else TARGET_STATES
    tasks = []
    for idx, c in enumerate(cases):
        sts = states if (not q or idx % 3 == 0 or c.documented is None) else states[:1]
        if q and c.id.startswith("cfg:") and ":" in c.id[4:]:
            sts = states[:1] if idx % 2 else states
        for t0 in sts:
            tasks.append((idx, c, t0))
    recs = pmap(lambda t: run_case(work, t[0], t[1], t[2]), tasks)
    # ---- judge (content): typed error, no side effect, valid accepted
    as_built = {}
    for (idx, c, t0), rec in zip(tasks, recs):
        key = c.key
        feats = {"violation": c.id, "strategy": c.strategy, "target0": t0, "context": c.ctx}
        detail = {"observed": rec, "documented": c.documented, "note": c.note}
        if c.documented is None:
            if rec["exc_class"] is not None:
                v.violation(feats, f"valid_rejected:{rec['exc_class']}", detail)
            elif not rec["changed"] and t0 != "previous":
                v.violation(feats, "valid_but_nothing_written", detail)
            as_built[key] = ("never", "none")
            continue
        ok_err = documented_ok(c, rec)
        if rec["exc_class"] is None:
            v.violation(feats, "accepted_invalid", detail)
        elif not ok_err:
            v.violation(feats, f"untyped_error:{rec['exc_class']}", detail)
        if rec["exc_class"] is not None and (rec["changed"] or rec["touches"]):
            v.violation(feats, "side_effect_before_error", detail)
        # as-built tables for the trace spec: what this tree does for this violation
        late = bool(rec["changed"] or rec["touches"])
        raised = rec["exc_class"] or "none"
        if c.documented == "CodeGenException" and "CodeGenException" in rec["exc_mro"]:
            raised = "CodeGenException"
        phase = c.phase if (rec["exc_class"] and not late) else ("report" if rec["exc_class"] else "never")
        prev = as_built.get(key)
        if prev is None or prev[0] == c.phase:
            as_built[key] = (phase, raised)
    known = {f["match"].get("violation") for f in load_findings("C17") if f.get("status") == "open"}
    known_ids = set()
    for c in cases:
        for kn in known:
            vals = kn if isinstance(kn, list) else [kn]
            if c.id in vals or any(isinstance(x, str) and x.endswith("*") and c.id.startswith(x[:-1]) for x in vals):
                known_ids.add(c.key)
    # ---- leg 1: TLC on the documented tables and on the as-built tables
    sd = work.sub("specs")
    for f in ("Pipeline.tla", "Pipeline_Trace.tla"):
        shutil.copy(SPECS / f, sd / f)
    (sd / "Pipeline_MC.tla").write_text(mc_module(cases, as_built, known_ids))
    r_doc = run_tlc("Pipeline_MC", MC_CFG.format(phase="DocPhase", err="DocErr"), work.sub("tlc"), spec_dir=sd, workers=4, coverage=q)
    tlc_must_pass(r_doc, "Pipeline on the documented tables")
    v.add_tlc(r_doc, "Pipeline, documented tables")
    r_built = run_tlc("Pipeline_MC", MC_CFG.format(phase="BuiltPhase", err="BuiltErr"), work.sub("tlc"), spec_dir=sd, workers=4)
    if not r_built.ok:
        # the as-built tables violate a property outside the known findings: already reported above as violations
        v.observations.append({"as_built_tlc": r_built.invariant_violated + r_built.property_violated})
    v.add_tlc(r_built, "Pipeline, as-built tables")
    # ---- leg 3: traces
    traces = []
    for (idx, c, t0), rec in zip(tasks, recs):
        tr = [{"e": "case", "v": c.key, "target0": t0}]
        for tch in rec["touches"][:6]:
            tr.append({"e": "touch", "what": tch[0]})
        tr.append({"e": "end", "err": ("CodeGenException" if (c.documented == "CodeGenException" and "CodeGenException" in rec["exc_mro"]) else (rec["exc_class"] or "none")),
                   "reported": bool(rec["reported"]), "changed": bool(rec["changed"] or rec["touches"])})
        traces.append(tr)
    (sd / "Pipeline_Trace_MC.tla").write_text(mc_module(cases, as_built, known_ids).replace("MODULE Pipeline_MC", "MODULE Pipeline_Trace_MC").replace("EXTENDS Pipeline", "EXTENDS Pipeline_Trace"))
    from ..common import validate_traces
    tres, rejected, inv = validate_traces("Pipeline_Trace_MC", TRACE_CFG.format(phase="BuiltPhase", err="BuiltErr"), traces,
                                          work.sub("tv"), env=None, timeout=1200) if False else _validate(sd, traces, work)
    v.add_tlc(tres, "Pipeline_Trace")
    bad = set(rejected) | {t for _, t in inv if t is not None}
    for t in sorted(bad):
        idx, c, t0 = tasks[t]
        why = [i for i, tt in inv if tt == t]
        key = c.key
        if key in known_ids:
            continue
        v.violation({"violation": c.id, "strategy": c.strategy, "target0": t0, "context": c.ctx}, "trace_rejected:" + (",".join(why) or "order"),
                    {"trace": traces[t], "observed": recs[t]})
    mut = config_not_mutated(work)
    for name, same in mut.items():
        if same is not True:
            v.violation({"violation": "config_mutated", "reader": name}, "config_mutated", {"diff": same})
    v.cov["config_dicts_checked_for_mutation"] = len(mut)
    v.cov["evaluations"] = len(recs)
    v.cov["traces_validated_against_impl"] = len(traces) - len(bad)
    v.cov["distinct_nontrivial"] = len({c.key for c in cases if c.documented})
    v.cov["valid_configurations"] = len({c.key for c in cases if not c.documented})
    v.cov["rule"] = ("cases = catalogue of single-constraint violations (configuration constraints, GraphQL syntax, one invalid "
                     "schema per graphql-core schema-validation rule, one invalid operation per specified rule) x pre-existing "
                     "target state; non-trivial = exactly one constraint violated (valid controls counted separately)")
    v.cov["exhaustive"] = not q
    for k in (0, len(recs) // 2, len(recs) - 1):
        v.sample({"case": tasks[k][1].id, "strategy": tasks[k][1].strategy, "target0": tasks[k][2], "observed": recs[k], "trace": traces[k]})
    v.assumptions += ["file-system effects observed with sys.addaudithook (open for writing, mkdir, rename, remove) plus a sha256 snapshot",
                      "one representative input per validation rule"]
    return v.finish()


MUT_PROBE = r"""
import copy, json, os, sys, toml
from ariadne_codegen.config import get_client_settings, get_graphql_schema_settings
os.chdir(sys.argv[1])
out = {}
for fn in sorted(f for f in os.listdir('.') if f.endswith('.toml')):
    cfg = toml.load(fn)
    for name, reader in (("client", get_client_settings), ("graphqlschema", get_graphql_schema_settings)):
        before = copy.deepcopy(cfg)
        try:
            reader(cfg)
        except Exception:
            pass
        out[fn + ":" + name] = True if cfg == before else {"before": repr(before)[:300], "after": repr(cfg)[:300]}
print("@@" + json.dumps(out))
"""


def config_not_mutated(work):
    """get_client_settings / get_graphql_schema_settings must leave the dict they are given untouched."""
    d = work.sub("mutprobe")
    (d / "schema.graphql").write_text(SCHEMA)
    (d / "queries.graphql").write_text(QUERIES)
    variants = {
        "plain.toml": "[tool.ariadne-codegen]\nschema_path = \"schema.graphql\"\nqueries_path = \"queries.graphql\"\n",
        "scalars.toml": "[tool.ariadne-codegen]\nschema_path = \"schema.graphql\"\nqueries_path = \"queries.graphql\"\ninclude_comments = true\n"
                        "remote_schema_headers = {A = \"$HOME\"}\nfiles_to_include = []\nplugins = []\n\n[tool.ariadne-codegen.scalars.Date]\ntype = \"str\"\nparse = \"x.p\"\n",
        "old.toml": "[ariadne-codegen]\nschema_path = \"schema.graphql\"\nqueries_path = \"queries.graphql\"\nunknown_key = 1\n",
        "schema_only.toml": "[tool.ariadne-codegen]\nschema_path = \"schema.graphql\"\ntarget_file_path = \"o.py\"\n",
    }
    for fn, txt in variants.items():
        (d / fn).write_text(txt)
    p = run_py(["-W", "ignore", "-c", MUT_PROBE, str(d)])
    line = [ln for ln in p.stdout.splitlines() if ln.startswith("@@")]
    if not line:
        raise Machinery("config mutation probe failed: " + p.stderr[-400:])
    return json.loads(line[-1][2:])


def _validate(sd, traces, work):
    import time
    from ..common import _no_null
    import re
    tf = work.dir / "c17_traces.json"
    tf.write_text(json.dumps(_no_null(traces)))
    res = run_tlc("Pipeline_Trace_MC", TRACE_CFG.format(phase="BuiltPhase", err="BuiltErr"), work.sub("tv"), spec_dir=sd, workers=1,
                  env={"TRACE_FILE": str(tf)}, extra=["-continue"], timeout=1800)
    rejected = {int(m.group(1)) - 1: int(m.group(2)) for m in re.finditer(r'<<"REJECTED", (\d+), (\d+)>>', res.out)}
    inv = []
    for ch in re.split(r"Error: (?=Invariant|Action property)", res.out)[1:]:
        m = re.match(r"(?:Invariant|Action property) (\S+)", ch)
        t = re.findall(r"/\\ tid = (\d+)", ch)
        inv.append((m.group(1) if m else "?", int(t[-1]) - 1 if t else None))
    if "Error:" in res.out and not rejected and not inv and not res.ok:
        raise Machinery("Pipeline_Trace failed:\n" + "\n".join(res.out.splitlines()[-40:]))
    return res, rejected, inv
