--------------------------- MODULE SchemaCopy_Trace ---------------------------
(* Trace validation for SchemaCopy: one real run of the graphqlschema strategy:                                          *)
(*   case(on, format)   rebuilt(lost)  -- lost = the <<kind, attribute>> pairs on which the schema obtained from the       *)
(*   generated file differs from the source schema (computed by a structural comparison of both schemas)                  *)
EXTENDS SchemaCopy_MC
Traces == JsonDeserialize(IOEnv.TRACE_FILE)
N == Len(Traces)
ASSUME \A t \in 1..N : TLCSet(t, 0)
VARIABLES tid, l
tvars == <<vars, tid, l>>
Ev == Traces[tid][l]
TraceInit == /\ tid \in 1..N /\ l = 2 /\ on = ToSet(Traces[tid][1].on) /\ format = Traces[tid][1].format
             /\ stage = "loaded" /\ source = Base \cup UNION {NeedsOf[f] : f \in ToSet(Traces[tid][1].on)} /\ emitted = {} /\ rebuilt = {}
T_Emit == Emit /\ l' = l /\ tid' = tid
T_Rebuilt == /\ l <= Len(Traces[tid]) /\ Ev.e = "rebuilt" /\ l' = l + 1 /\ tid' = tid
             /\ Rebuild /\ Ev.lost = <<>> /\ Ev.importable /\ Ev.names_ok
TraceNext == T_Emit \/ T_Rebuilt
TraceSpec == TraceInit /\ [][TraceNext]_tvars
Reached == TLCSet(tid, IF l > TLCGet(tid) THEN l ELSE TLCGet(tid))
Accepted ==
  LET bad == {t \in 1..N : TLCGet(t) # Len(Traces[t]) + 1} IN
  /\ \A t \in bad : PrintT(<<"REJECTED", t, TLCGet(t)>>)
  /\ bad = {}
=============================================================================
