"""In-package driver for C13: replay server frame sequences into the real subscription iterator.

Runs inside a fresh interpreter next to a generated package (async client, plain or OpenTelemetry).
For every case (inbox kinds, init payload?, variables mode, via) it installs a scripted connection the way the
repository's own tests do (module-level ws_connect of the generated base client module), iterates the real
execute_ws / generated method, and records the client-side event trace.
"""
import asyncio
import json
import sys

from .util import load_payload, emit, import_pkg, exc_kind

QUERY_NAME = "Count"
INIT_PAYLOAD = {"token": "abc", "n": 1}
WS_HEADERS = {"Authorization": "Bearer t", "X-A": "1"}
EXTRA_HEADERS = {"X-A": "2", "X-B": "3"}
ORIGIN = "https://origin.example"
URL = "ws://server.example/graphql"


def frame(kind, i, op_id):
    if kind == "ack":
        return json.dumps({"type": "connection_ack"})
    if kind == "next":
        return json.dumps({"type": "next", "id": op_id, "payload": {"data": {"counter": {"n": i, "label": f"l{i}"}}}})
    if kind == "next_falsy":
        return json.dumps({"type": "next", "id": op_id, "payload": {"data": None if i % 2 else {}}})
    if kind == "ping":
        return json.dumps({"type": "ping"})
    if kind == "pong":
        return json.dumps({"type": "pong", "payload": {"x": 1}})
    if kind == "complete":
        return json.dumps({"type": "complete", "id": op_id})
    if kind == "error":
        return json.dumps({"type": "error", "id": op_id, "payload": [{"message": "boom", "path": ["counter"]}, {"message": "second"}]})
    if kind == "error_nopayload":
        return json.dumps({"type": "error", "id": op_id} if i % 2 else {"type": "error", "id": op_id, "payload": {}})
    if kind == "nonjson":
        # non-JSON text comes in several shapes; a blank / whitespace-only frame is one of them (WsProtocol: "nonjson")
        return ("this is {not json", "", "  \n")[i % 3]
    if kind == "unknown":
        return json.dumps({"type": "bogus_type", "id": op_id})
    if kind == "notype":
        return json.dumps({"id": op_id, "payload": {"data": {"counter": {"n": i, "label": "x"}}}})
    if kind == "nextnodata":
        return json.dumps({"type": "next", "id": op_id, "payload": {"errors": [{"message": "e"}]}})
    if kind == "echo":
        return json.dumps({"type": "subscribe" if i % 2 else "connection_init", "id": op_id, "payload": {}})
    raise ValueError(kind)


class FakeWS:
    def __init__(self, kinds, log, expect):
        self.kinds = kinds
        self.log = log
        self.expect = expect
        self.pos = 0
        self.closed = False
        self.op_id = "unknown-yet"

    async def send(self, msg):
        try:
            d = json.loads(msg)
        except Exception:
            self.log.append({"e": "send", "frame": "other", "ok": False})
            return
        t = d.get("type")
        if t == "connection_init":
            want = self.expect["init_payload"]
            ok = (d.get("payload") == want) if want else ("payload" not in d)
            ok = ok and set(d) <= {"type", "payload"}
            self.log.append({"e": "send", "frame": "init+payload" if "payload" in d else "init", "ok": bool(ok)})
        elif t == "subscribe":
            p = d.get("payload") or {}
            self.op_id = d.get("id")
            ok = isinstance(self.op_id, str) and len(self.op_id) > 0
            ok = ok and p.get("query") == self.expect["query"] and p.get("operationName") == self.expect["operation_name"]
            want = self.expect["variables"]
            if want is None:
                ok = ok and p.get("variables", {}) == {}
                fr = "subscribe"
            else:
                ok = ok and p.get("variables") == want
                fr = "subscribe+vars" if "variables" in p else "subscribe"
            ok = ok and set(p) <= {"query", "operationName", "variables"} and set(d) == {"id", "type", "payload"}
            self.log.append({"e": "send", "frame": fr, "ok": bool(ok), "got": None if ok else p})
        elif t == "pong":
            self.log.append({"e": "send", "frame": "pong", "ok": set(d) <= {"type", "payload"}})
        else:
            self.log.append({"e": "send", "frame": "other:" + str(t), "ok": False})

    def _next(self):
        k = self.kinds[self.pos]
        self.pos += 1
        self.log.append({"e": "recv", "i": self.pos, "kind": k})
        return frame(k, self.pos, self.op_id)

    async def recv(self):
        if self.closed or self.pos >= len(self.kinds):
            self.log.append({"e": "eof"})
            raise ConnectionError("connection closed (scripted)")
        return self._next()

    def __aiter__(self):
        return self

    async def __anext__(self):
        if self.closed:
            raise StopAsyncIteration
        if self.pos >= len(self.kinds):
            self.log.append({"e": "eof"})
            raise StopAsyncIteration
        return self._next()

    async def close(self, *a, **k):
        self.log.append({"e": "close"})
        self.closed = True


class FakeConnect:
    def __init__(self, kinds, log, expect):
        self.kinds, self.log, self.expect = kinds, log, expect

    def __call__(self, url, *args, **kw):
        headers = kw.get("extra_headers", kw.get("additional_headers"))
        sub = kw.get("subprotocols")
        ev = {"e": "connect", "url_ok": url == URL and not args,
              "subprotocol_ok": list(sub or []) == ["graphql-transport-ws"],
              "headers_ok": dict(headers or {}) == self.expect["headers"],
              "origin_ok": kw.get("origin") == self.expect["origin"],
              "kw": sorted(k for k in kw if k not in ("extra_headers", "additional_headers", "subprotocols", "origin"))}
        ev["headers_ok"] = ev["headers_ok"] and ev["kw"] == self.expect["other_kw"]
        self.log.append(ev)
        self.ws = FakeWS(self.kinds, self.log, self.expect)
        return self

    async def __aenter__(self):
        return self.ws

    async def __aexit__(self, *a):
        return False


async def run_case(pkg, basemod, case, client_kw, tracer):
    UNSET = import_pkg(pkg.__name__ + ".base_model").UNSET
    kinds = case["inbox"]
    via = case["via"]
    log = [{"e": "case", "inbox": kinds, "payload": case["payload"], "vars": case["vars"], "via": via,
            "client": case["client"]}]
    kw = dict(client_kw)
    if case["payload"]:
        kw["ws_connection_init_payload"] = INIT_PAYLOAD
    if tracer:
        kw["tracer"] = tracer
    client = pkg.Client(**kw)
    mode = case["vars"]
    call_kw = {}
    headers = dict(WS_HEADERS)
    other_kw = []
    if case.get("extra"):
        call_kw = {"extra_headers": dict(EXTRA_HEADERS), "open_timeout": 5}
        headers.update(EXTRA_HEADERS)
        other_kw = ["open_timeout"]
    if via == "execute_ws":
        query = "subscription Count($start: Int, $inp: In) { counter(start: $start, inp: $inp) { n label } }"
        if mode == "none":
            variables, want = None, None
        elif mode == "empty":
            variables, want = {}, None
        elif mode == "allunset":
            variables, want = {"start": UNSET, "inp": UNSET}, {}
        else:
            variables = {"start": 3, "skipme": UNSET, "inp": pkg.In(a=1, b=None), "lst": [pkg.In(a=2)]}
            want = {"start": 3, "inp": {"a": 1, "b": None}, "lst": [{"a": 2}]}
        it = client.execute_ws(query=query, operation_name=QUERY_NAME, variables=variables, **call_kw)
        expect_query = query
    else:
        if mode == "filtered":
            it = client.count(start=3, inp=pkg.In(a=1, b=None), **call_kw)
            want = {"start": 3, "inp": {"a": 1, "b": None}}
        else:  # all arguments omitted: every variable is UNSET
            it = client.count(**call_kw)
            want = {}
        expect_query = None
    expect = {"init_payload": INIT_PAYLOAD if case["payload"] else None, "query": expect_query,
              "operation_name": QUERY_NAME, "variables": want, "headers": headers, "origin": ORIGIN,
              "other_kw": other_kw}
    if expect_query is None:
        expect["query"] = METHOD_QUERY[0]
    fc = FakeConnect(kinds, log, expect)
    basemod.ws_connect = fc
    n = 0
    try:
        async for item in it:
            n += 1
            if via == "execute_ws":
                i = item.get("counter", {}).get("n") if isinstance(item, dict) else None
                ok = item == {"counter": {"n": i, "label": f"l{i}"}}
            else:
                i = getattr(getattr(item, "counter", None), "n", None)
                ok = type(item).__name__ == "Count" and item.model_dump(by_alias=True) == {"counter": {"n": i, "label": f"l{i}"}}
            log.append({"e": "yield", "i": i if isinstance(i, int) else 0, "ok": bool(ok)})
        result = "done"
    except Exception as ex:  # noqa
        result = exc_kind(ex)
        if result == "multi_error":
            errs = getattr(ex, "errors", [])
            last_kind = [e["kind"] for e in log if e.get("e") == "recv"][-1:]
            if [e.message for e in errs] != (["boom", "second"] if last_kind != ["error_nopayload"] else []):
                result = "multi_error:bad_content"
        if result.startswith("other:"):
            log.append({"e": "exc", "repr": repr(ex)[:200]})
    log.append({"e": "end", "result": result, "nyielded": n})
    return log


METHOD_QUERY = [None]


def main():
    P = load_payload()
    pkg = import_pkg(P["package"])
    base = type(pkg.Client).__mro__  # noqa
    basecls = pkg.Client.__mro__[1]
    basemod = sys.modules[basecls.__module__]
    # the query text a generated method sends: read from the generated client source via a probe run
    import httpx
    shared_http = httpx.AsyncClient()  # creating one per case costs ~30 ms (TLS context)
    client_kw = {"ws_url": URL, "ws_headers": dict(WS_HEADERS), "ws_origin": ORIGIN, "http_client": shared_http}

    async def go():
        # probe: capture the query string of the generated method
        class Probe(FakeConnect):
            pass
        cap = {}

        class CapWS(FakeWS):
            async def send(self, msg):
                d = json.loads(msg)
                if d.get("type") == "subscribe":
                    cap["q"] = d["payload"].get("query")
                await super().send(msg)
        log = []
        pc = FakeConnect(["ack"], log, {"init_payload": None, "query": None, "operation_name": QUERY_NAME, "variables": {},
                                        "headers": WS_HEADERS, "origin": ORIGIN, "other_kw": []})
        orig_call = pc.__call__

        def call(url, *a, **k):
            FakeConnect.__call__(pc, url, *a, **k)
            pc.ws.__class__ = CapWS
            return pc
        basemod.ws_connect = call
        c = pkg.Client(**client_kw)
        async for _ in c.count():
            pass
        METHOD_QUERY[0] = cap.get("q")
        out = []
        for case in P["cases"]:
            out.append(await run_case(pkg, basemod, case, client_kw, P.get("tracer")))
        return out

    traces = asyncio.run(go())
    emit({"traces": traces, "method_query": METHOD_QUERY[0]})


if __name__ == "__main__":
    main()
