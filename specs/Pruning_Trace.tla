---------------------------- MODULE Pruning_Trace ----------------------------
(* Trace validation for Pruning: a real generation (CLI, harness-side probe around add_operation and the _generate_*   *)
(* phases) logged as   case(deps, inEnums, ops, flags, order)  add(k, used_enums, used_inputs, arg_enums)*               *)
(* phase(name, used_enums)*  final(inputs, enums).  The phase order is the OBSERVED one; whether it is a good order is   *)
(* decided by the invariants (RetainedEnumsExact, ImportsResolve, EnumsWrittenLast), not by comparing with the code's.  *)
EXTENDS Pruning, Json, IOUtils

Traces == JsonDeserialize(IOEnv.TRACE_FILE)
N == Len(Traces)
ASSUME \A t \in 1..N : TLCSet(t, 0)
TraceFlags == [allInputs : BOOLEAN, allEnums : BOOLEAN]
TraceOrders == {Traces[t][1].order : t \in 1..N}

VARIABLES tid, l
tvars == <<vars, tid, l>>
Ev == Traces[tid][l]
Has == l <= Len(Traces[tid])
Take == l' = l + 1 /\ tid' = tid
C == Traces[tid][1]

TraceInit ==
  /\ tid \in 1..N /\ l = 2
  /\ deps = [i \in Inputs |-> ToSet(C.deps[i])] /\ inEnums = [i \in Inputs |-> ToSet(C.inEnums[i])]
  /\ ops = [k \in DOMAIN C.ops |-> [varIn |-> ToSet(C.ops[k].varIn), varEn |-> ToSet(C.ops[k].varEn),
                                    resEn |-> ToSet(C.ops[k].resEn), fragEn |-> ToSet(C.ops[k].fragEn)]]
  /\ flags = [allInputs |-> C.allInputs, allEnums |-> C.allEnums]
  /\ porder = C.order
  /\ added = 0 /\ pc = 0 /\ usedInputs = {} /\ argEnums = {} /\ usedEnums = {}
  /\ written = [inputs |-> NotWritten, enums |-> NotWritten, inputImports |-> {}, clientEnumImports |-> {},
                clientInputImports |-> {}, resultEnumImports |-> {}, fragmentEnumImports |-> {}]

T_Add ==
  /\ Has /\ Ev.e = "add" /\ Ev.k = added + 1 /\ Take /\ AddOperation
  /\ usedEnums' = ToSet(Ev.used_enums) /\ usedInputs' = ToSet(Ev.used_inputs) /\ argEnums' = ToSet(Ev.arg_enums)
T_Start == l' = l /\ tid' = tid /\ StartGenerate
T_Phase ==
  /\ Has /\ Ev.e = "phase" /\ Take
  /\ pc \in 1..Len(porder) /\ porder[pc] = Ev.name
  /\ (GenInputs \/ GenResults \/ GenFragments \/ CopyFiles \/ GenClient \/ GenEnums \/ GenInit)
  /\ usedEnums' = ToSet(Ev.used_enums)
T_Final ==
  /\ Has /\ Ev.e = "final" /\ Take /\ Finished
  /\ ToSet(Ev.inputs) = written.inputs /\ ToSet(Ev.enums) = written.enums
  /\ UNCHANGED vars

TraceNext == T_Add \/ T_Start \/ T_Phase \/ T_Final
TraceSpec == TraceInit /\ [][TraceNext]_tvars

Reached == TLCSet(tid, IF l > TLCGet(tid) THEN l ELSE TLCGet(tid))
Accepted ==
  LET bad == {t \in 1..N : TLCGet(t) # Len(Traces[t]) + 1} IN
  /\ \A t \in bad : PrintT(<<"REJECTED", t, TLCGet(t)>>)
  /\ bad = {}
=============================================================================
