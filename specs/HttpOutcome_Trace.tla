------------------------- MODULE HttpOutcome_Trace -------------------------
(* Trace validation for HttpOutcome: real executions of get_data / a generated method,       *)
(* recorded as event lists with arguments, are accepted only if they are behaviours of       *)
(* HttpOutcome!Spec; every invariant of HttpOutcome is evaluated in every state.             *)
(* events:  call(status, body, via)  is_success  json  outcome(obs)                          *)
EXTENDS HttpOutcome, Json, IOUtils, TLCExt

Traces == JsonDeserialize(IOEnv.TRACE_FILE)
TraceStatuses == 100..599
N == Len(Traces)
ASSUME \A t \in 1..N : TLCSet(t, 0)

VARIABLES tid, l
tvars == <<vars, tid, l>>

Ev(t, i) == Traces[t][i]
TLen(t) == Len(Traces[t])

TraceInit ==
  /\ tid \in 1..N
  /\ l = 2
  /\ Ev(tid, 1).e = "call"
  /\ resp = [status |-> Ev(tid, 1).status, body |-> Ev(tid, 1).body]
  /\ step = "status" /\ outcome = None /\ json = "unparsed"

IsEvent(name) == l <= TLen(tid) /\ Ev(tid, l).e = name /\ l' = l + 1 /\ tid' = tid
Silent == l' = l /\ tid' = tid

\* the code reads response.is_success exactly when it takes the CheckStatus step
Logged == Ev(tid, 1).logged
T_CheckStatus == (IF Logged THEN IsEvent("is_success") ELSE Silent) /\ CheckStatus
\* response.json() is called exactly in the ParseJson step
T_ParseJson   == (IF Logged THEN IsEvent("json") ELSE Silent) /\ ParseJson
T_Shape  == Silent /\ CheckShape
T_Errors == Silent /\ CheckErrors
T_Return == Silent /\ ReturnData

\* an absent and a null data member are both observed as None
DataObs(d) == IF d = "object" THEN "object" ELSE "none"
Matches(o, ev) ==
  /\ ev.kind = o.kind
  /\ o.kind = "http_error" => ev.status = o.status /\ ev.same_response
  /\ o.kind = "invalid_response" => ev.same_response
  /\ o.kind = "multi_error" => /\ ev.n = o.n /\ ev.data = DataObs(o.data) /\ ev.detail = o.detail
                               /\ ev.attrs_ok
  /\ o.kind = "return" => ev.data = DataObs(o.data) /\ ev.unchanged
  /\ o.kind = "model" => ev.data = o.data /\ ev.unchanged

\* the observed outcome of get_data must be the spec's outcome
T_Outcome ==
  /\ IsEvent("outcome")
  /\ step = "done"
  /\ Matches(outcome, Ev(tid, l))
  /\ UNCHANGED vars

\* the observed outcome of a generated method on the same response
T_MethodOutcome ==
  /\ IsEvent("method_outcome")
  /\ step = "done"
  /\ Matches(MethodOutcome(resp), Ev(tid, l))
  /\ UNCHANGED vars

TraceNext == T_CheckStatus \/ T_ParseJson \/ T_Shape \/ T_Errors \/ T_Return \/ T_Outcome \/ T_MethodOutcome
TraceSpec == TraceInit /\ [][TraceNext]_tvars

Reached == TLCSet(tid, IF l > TLCGet(tid) THEN l ELSE TLCGet(tid))
Accepted ==
  LET bad == {t \in 1..N : TLCGet(t) # TLen(t) + 1} IN
  /\ \A t \in bad : PrintT(<<"REJECTED", t, TLCGet(t)>>)
  /\ bad = {}
=============================================================================
