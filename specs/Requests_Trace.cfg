SPECIFICATION TraceSpec
CONSTANTS NCalls <- TraceMaxCalls
 VarTrees <- AnyTrees
 HeaderModes <- AnyHdr
 Reuse <- Bools
 OpNames <- AllOpNames
 Deviations <- NoDev
INVARIANT NoInterference
INVARIANT OwnResponse
INVARIANT CallerStateUntouched
INVARIANT CallerVarsUntouched
CONSTRAINT Reached
POSTCONDITION Accepted
CHECK_DEADLOCK FALSE
