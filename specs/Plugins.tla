------------------------------- MODULE Plugins -------------------------------
(* C15 -- the bundled plugins preserve client behaviour apart from their documented change.                            *)
(* Code: plugins/manager._apply_plugins_on_object (every hook runs over the plugin list in configuration order) and      *)
(* contrib: ShorterResultsPlugin, ExtractOperationsPlugin, ClientForwardRefsPlugin, NoReimportsPlugin.                  *)
(* The artefact is the abstract generated package; one action per hook family in the order the generator fires them.    *)
EXTENDS Naturals, Sequences, FiniteSets, TLC, SequencesExt

CONSTANTS PluginLists,      \* the configurations explored: sequences of plugin names without repetition
          OpKinds,          \* operation shapes: "one_field", "many_fields", "union", "fragment", "scalar", "arguments", "subscription"
          Deviations        \* {"ops_module_only_with_init"} = seeded: operations module written only when __init__ has a body

\* __typename selected at the root is a top-level field like any other ("typename_and_field": two fields, "only_typename":
\* one); fields that reach the root class through a fragment on the root type count as well ("root_fragment_two_fields")
SingleTopLevel(k) == k \notin {"many_fields", "typename_and_field", "root_fragment_two_fields"}

VARIABLES plist, kind, phase,
          ret,            \* what the client method returns: "full_model" | "single_field"
          queryAt,        \* where the operation string lives: "inline" | "operations_module"
          opsRecorded,    \* ExtractOperations saw the operation string
          opsModule,      \* operations.py was written
          clientImports,  \* "module_level" | "type_checking"
          init,           \* "reexports" | "reexports_and_ops" | "empty"
          tags            \* comments appended to __init__ by the two tagging test plugins, in order
vars == <<plist, kind, phase, ret, queryAt, opsRecorded, opsModule, clientImports, init, tags>>
Has(p) == p \in Range(plist)
\*                  "fwdrefs_blinds_shorter" = as built (finding F17b): when ClientForwardRefs runs before ShorterResults in the same
\*                  hook, it has already turned the return annotations into strings and moved the imports, and
\*                  ShorterResults no longer recognises any method: nothing is unwrapped
Known == {"shorter", "extract", "fwdrefs", "noreimports", "identity", "tagA", "tagB"}
IndexOf(p) == CHOOSE i \in 1..Len(plist) : plist[i] = p
FwdBeforeShorter == Has("fwdrefs") /\ Has("shorter") /\ IndexOf("fwdrefs") < IndexOf("shorter")
ShorterEffective == Has("shorter") /\ ~("fwdrefs_blinds_shorter" \in Deviations /\ FwdBeforeShorter)
Init == /\ plist \in PluginLists /\ kind \in OpKinds /\ phase = "operation_str"
        /\ ret = "full_model" /\ queryAt = "inline" /\ opsRecorded = FALSE /\ opsModule = FALSE
        /\ clientImports = "module_level" /\ init = "reexports" /\ tags = <<>>

\* generate_operation_str: ExtractOperations records the string (and returns it unchanged)
HookOperationStr == /\ phase = "operation_str" /\ phase' = "client_method"
                    /\ opsRecorded' = Has("extract")
                    /\ UNCHANGED <<plist, kind, ret, queryAt, opsModule, clientImports, init, tags>>
\* generate_client_method: ExtractOperations replaces the inline literal by a module constant
HookClientMethod == /\ phase = "client_method" /\ phase' = "client_module"
                    /\ queryAt' = IF Has("extract") THEN "operations_module" ELSE "inline"
                    /\ UNCHANGED <<plist, kind, ret, opsRecorded, opsModule, clientImports, init, tags>>
\* generate_client_module: ShorterResults unwraps single-field results, ClientForwardRefs moves imports
HookClientModule == /\ phase = "client_module" /\ phase' = "init_module"
                    /\ ret' = IF ShorterEffective /\ SingleTopLevel(kind) THEN "single_field" ELSE "full_model"
                    /\ clientImports' = IF Has("fwdrefs") THEN "type_checking" ELSE "module_level"
                    /\ UNCHANGED <<plist, kind, queryAt, opsRecorded, opsModule, init, tags>>
\* generate_init_module, plugin by plugin IN CONFIGURATION ORDER: NoReimports empties the body; ExtractOperations adds its
\* constants to a non-empty body and writes operations.py
RECURSIVE InitFold(_, _)
InitFold(ps, st) ==     \* st = [init, ops]
  IF ps = <<>> THEN st
  ELSE LET p == ps[1] IN
       InitFold(Tail(ps),
         CASE p = "noreimports" -> [st EXCEPT !.init = "empty"]
           [] p = "extract" -> [init |-> IF st.init = "empty" THEN "empty" ELSE "reexports_and_ops",
                                ops |-> IF "ops_module_only_with_init" \in Deviations THEN st.init # "empty" ELSE TRUE]
           [] OTHER -> st)
HookInitModule == /\ phase = "init_module" /\ phase' = "init_code"
                  /\ LET r == InitFold(plist, [init |-> "reexports", ops |-> FALSE]) IN
                     init' = r.init /\ opsModule' = r.ops
                  /\ UNCHANGED <<plist, kind, ret, queryAt, opsRecorded, clientImports, tags>>
\* generate_init_code: the two tagging plugins append their mark, again in configuration order
HookInitCode == /\ phase = "init_code" /\ phase' = "done"
                /\ tags' = SelectSeq(plist, LAMBDA p : p \in {"tagA", "tagB"})
                /\ UNCHANGED <<plist, kind, ret, queryAt, opsRecorded, opsModule, clientImports, init>>
Next == HookOperationStr \/ HookClientMethod \/ HookClientModule \/ HookInitModule \/ HookInitCode
Spec == Init /\ [][Next]_vars

Done == phase = "done"
\* the package loads: whatever the client refers to exists
Loads == Done => (queryAt = "operations_module" => opsModule /\ opsRecorded)
HookOrder == Done => tags = SelectSeq(plist, LAMBDA p : p \in {"tagA", "tagB"})
ShorterIsProjection == Done => (ret = "single_field" <=> (Has("shorter") /\ SingleTopLevel(kind)))
ShorterIsProjectionK == ShorterIsProjection \/ ("fwdrefs_blinds_shorter" \in Deviations /\ FwdBeforeShorter)
ExtractMovesStrings == Done => (queryAt = "operations_module" <=> Has("extract"))
ForwardRefsOnlyMoveImports == Done => (clientImports = "type_checking" <=> Has("fwdrefs"))
NoReimportsOnlyInit == Done => (init = "empty" <=> Has("noreimports"))
IdentityNoChange == (Done /\ Range(plist) \subseteq {"identity"}) =>
                      (ret = "full_model" /\ queryAt = "inline" /\ clientImports = "module_level" /\ init = "reexports" /\ tags = <<>>)
=============================================================================
