----------------------------- MODULE WsProtocol -----------------------------
(* C13 -- the subscription iterator (execute_ws + _handle_ws_message of the async base       *)
(* clients, and their OpenTelemetry twins) as a graphql-transport-ws client session.          *)
(* One action per await / branch of the code; the server is the environment: `inbox` is the   *)
(* whole sequence of frames it will deliver, fixed nondeterministically in Init.              *)
EXTENDS Naturals, Sequences, FiniteSets, TLC

CONSTANTS MaxFrames,       \* bound on the length of the server frame sequence
          Kinds,           \* frame kinds the server may send
          InitPayloads,    \* subset of BOOLEAN: is ws_connection_init_payload configured?
          VarModes         \* subset of {"none","empty","filtered","allunset"}: variables passed to the call

\* kinds named by the property statement
\* ("nonjson": any text that is not a JSON document -- garbage, the empty string, whitespace only; the harness rotates the
\*  three shapes over the frame positions)
\* ("error_nopayload": an error frame whose payload is missing or an empty object -- still an error frame: multi-error)
JudgedKinds == {"ack", "next", "ping", "pong", "complete", "error", "error_nopayload", "nonjson", "unknown", "notype", "nextnodata"}
\* kinds that are explored but whose treatment the statement does not fix (DESIGN 8.4)
\*   next_falsy : a next frame whose payload.data is null / empty (the code does not yield it)
\*   echo       : a well-typed frame a server never sends (subscribe / connection_init): ignored
ObservedOnlyKinds == {"next_falsy", "echo"}

VARIABLES phase,     \* "idle" | "connected" | "initSent" | "acked" | "streaming" | "ended"
          inbox,     \* frames the server delivers, in order
          pos,       \* number of frames consumed
          sent,      \* frames sent by the client, in order
          yielded,   \* indices (into inbox) of the frames whose data was yielded, in order
          closed,    \* websocket.close() was called by the client
          result,    \* "running" | "done" | "multi_error" | "invalid_message"
          cfg        \* [payload : BOOLEAN, vars : VarModes]
vars == <<phase, inbox, pos, sent, yielded, closed, result, cfg>>

Seqs(S, n) == UNION {[1..k -> S] : k \in 1..n}

Init ==
  /\ phase = "idle" /\ pos = 0 /\ sent = <<>> /\ yielded = <<>> /\ closed = FALSE /\ result = "running"
  /\ inbox \in Seqs(Kinds, MaxFrames)
  /\ cfg \in [payload : InitPayloads, vars : VarModes]

Cur == inbox[pos + 1]
HasNext == pos < Len(inbox)

InitFrame == IF cfg.payload THEN "init+payload" ELSE "init"
\* `if variables:` -- an absent / empty dict adds no "variables" member; UNSET values are filtered
\* ("allunset": a non-empty dict whose values are all UNSET, which is what a generated method passes when
\*  every argument is omitted -> a "variables" member holding the empty object)
SubscribeFrame == CASE cfg.vars = "none" -> "subscribe"
                    [] cfg.vars = "empty" -> "subscribe"
                    [] OTHER -> "subscribe+vars"

\* async with ws_connect(url, subprotocols=[graphql-transport-ws], origin=..., extra_headers=...)
Connect ==
  /\ phase = "idle" /\ result = "running"
  /\ phase' = "connected"
  /\ UNCHANGED <<inbox, pos, sent, yielded, closed, result, cfg>>

\* await self._send_connection_init(websocket)
SendInit ==
  /\ phase = "connected"
  /\ sent' = Append(sent, InitFrame) /\ phase' = "initSent"
  /\ UNCHANGED <<inbox, pos, yielded, closed, result, cfg>>

\* _handle_ws_message(await websocket.recv(), expected_type=CONNECTION_ACK)
\* decode -> type known? -> expected type? ; everything but an ack is an invalid message
RecvFirst ==
  /\ phase = "initSent" /\ HasNext
  /\ pos' = pos + 1
  /\ IF Cur = "ack" THEN phase' = "acked" /\ result' = result
                    ELSE phase' = "ended" /\ result' = "invalid_message"
  /\ UNCHANGED <<inbox, sent, yielded, closed, cfg>>

\* await self._send_subscribe(...)
SendSubscribe ==
  /\ phase = "acked"
  /\ sent' = Append(sent, SubscribeFrame) /\ phase' = "streaming"
  /\ UNCHANGED <<inbox, pos, yielded, closed, result, cfg>>

\* async for message in websocket: one branch of _handle_ws_message per frame kind
Consume == phase = "streaming" /\ HasNext /\ ~closed /\ pos' = pos + 1

RecvNext ==
  /\ Consume /\ Cur = "next"
  /\ yielded' = Append(yielded, pos + 1)
  /\ UNCHANGED <<phase, inbox, sent, closed, result, cfg>>

\* observed-only: falsy data is not yielded by the code (`if data: yield data`); the statement does not
\* fix this case, so the spec allows both (yield or skip)
RecvNextFalsy ==
  /\ Consume /\ Cur = "next_falsy"
  /\ (yielded' = yielded \/ yielded' = Append(yielded, pos + 1))
  /\ UNCHANGED <<phase, inbox, sent, closed, result, cfg>>

RecvPing ==
  /\ Consume /\ Cur = "ping"
  /\ sent' = Append(sent, "pong")
  /\ UNCHANGED <<phase, inbox, yielded, closed, result, cfg>>

\* pong, a repeated ack, and frames only a client sends are ignored
RecvIgnored ==
  /\ Consume /\ Cur \in {"pong", "ack", "echo"}
  /\ UNCHANGED <<phase, inbox, sent, yielded, closed, result, cfg>>

\* complete: websocket.close(); the iteration over the socket then ends
RecvComplete ==
  /\ Consume /\ Cur = "complete"
  /\ closed' = TRUE /\ phase' = "ended" /\ result' = "done"
  /\ UNCHANGED <<inbox, sent, yielded, cfg>>

RecvError ==
  /\ Consume /\ Cur \in {"error", "error_nopayload"}
  /\ phase' = "ended" /\ result' = "multi_error"
  /\ UNCHANGED <<inbox, sent, yielded, closed, cfg>>

RecvInvalid ==
  /\ Consume /\ Cur \in {"nonjson", "unknown", "notype", "nextnodata"}
  /\ phase' = "ended" /\ result' = "invalid_message"
  /\ UNCHANGED <<inbox, sent, yielded, closed, cfg>>

\* the server closed the connection normally: the iteration simply ends
ServerClosed ==
  /\ phase = "streaming" /\ ~HasNext
  /\ phase' = "ended" /\ result' = "done"
  /\ UNCHANGED <<inbox, pos, sent, yielded, closed, cfg>>

Recv == RecvNext \/ RecvNextFalsy \/ RecvPing \/ RecvIgnored \/ RecvComplete \/ RecvError \/ RecvInvalid

Next == Connect \/ SendInit \/ RecvFirst \/ SendSubscribe \/ Recv \/ ServerClosed
Spec == Init /\ [][Next]_vars

\* ---- properties ------------------------------------------------------------------------
Count(s, x) == Cardinality({i \in 1..Len(s) : s[i] = x})
IsInit(f) == f \in {"init", "init+payload"}
IsSub(f) == f \in {"subscribe", "subscribe+vars"}

TypeOK == /\ phase \in {"idle", "connected", "initSent", "acked", "streaming", "ended"}
          /\ result \in {"running", "done", "multi_error", "invalid_message"}
          /\ pos \in 0..Len(inbox)

\* connection_init first, carrying the configured payload
InitFirst == sent # <<>> => sent[1] = InitFrame
\* nothing more until the ack arrived
SilentUntilAck == phase \in {"connected", "initSent"} => Len(sent) <= 1
NoSubscribeWithoutAck == (\E i \in 1..Len(sent) : IsSub(sent[i])) => (pos >= 1 /\ inbox[1] = "ack")
\* exactly one subscribe (at most one ever; exactly one once streaming), right after the init
ExactlyOneSubscribe ==
  /\ Cardinality({i \in 1..Len(sent) : IsSub(sent[i])}) <= 1
  /\ phase \in {"streaming"} => (Len(sent) >= 2 /\ sent[2] = SubscribeFrame)
  /\ Cardinality({i \in 1..Len(sent) : IsInit(sent[i])}) <= 1
\* yields are exactly the truthy next frames consumed so far after the ack, in order
JudgedNextsUpTo(n) == {i \in 2..n : inbox[i] = "next"}
YieldsAreNextDataInOrder ==
  /\ \A i \in 1..Len(yielded) : inbox[yielded[i]] \in {"next", "next_falsy"}
  /\ \A i \in 1..Len(yielded) - 1 : yielded[i] < yielded[i + 1]
  /\ JudgedNextsUpTo(pos) \subseteq {yielded[i] : i \in 1..Len(yielded)}
\* one pong per ping consumed while streaming
OnePongPerPing == Count(sent, "pong") = Cardinality({i \in 2..pos : inbox[i] = "ping"})
\* terminal mapping
Enders == {"complete", "error", "error_nopayload", "nonjson", "unknown", "notype", "nextnodata"}
Bad(i) == (i = 1 /\ inbox[1] # "ack") \/ (i > 1 /\ inbox[i] \in Enders)
FirstBad == IF \E i \in 1..Len(inbox) : Bad(i)
            THEN CHOOSE i \in 1..Len(inbox) : Bad(i) /\ \A j \in 1..(i - 1) : ~Bad(j)
            ELSE Len(inbox) + 1
Expected ==
  LET i == FirstBad IN
  IF i = Len(inbox) + 1 THEN "done"
  ELSE IF i = 1 THEN "invalid_message"
  ELSE CASE inbox[i] = "complete" -> "done" [] inbox[i] \in {"error", "error_nopayload"} -> "multi_error" [] OTHER -> "invalid_message"
TerminalMapping == result # "running" => (result = Expected /\ pos = (IF FirstBad > Len(inbox) THEN Len(inbox) ELSE FirstBad))
CloseOnlyOnComplete == closed => (pos >= 1 /\ inbox[pos] = "complete")
\* the client never sends after the session ended
NoSendAfterEnd == [][phase = "ended" => sent' = sent /\ yielded' = yielded]_vars
AppendOnly == [][Len(sent') >= Len(sent) /\ SubSeq(sent', 1, Len(sent)) = sent
                 /\ Len(yielded') >= Len(yielded) /\ SubSeq(yielded', 1, Len(yielded)) = yielded]_vars

\* the only deadlocks are the terminal states (the iterator always terminates once the server stops)
Terminal == phase = "ended"
NoStuck == Terminal \/ ENABLED Next
=============================================================================
