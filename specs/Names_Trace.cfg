SPECIFICATION TraceSpec
CONSTANTS Names <- TNames
 PlantNames <- TNames
 Keywords <- KW
 Reserved <- RES
 Deviations <- AsBuilt
INVARIANT LawsHoldOrKnown
INVARIANT NoSilentMergeK
CONSTRAINT Reached
POSTCONDITION Accepted
CHECK_DEADLOCK FALSE
