"""C13 -- subscriptions follow graphql-transport-ws for every frame sequence.

leg 1: TLC checks WsProtocol exhaustively (all server frame sequences up to the bound).
leg 2: TLC prints every terminal state (inbox, cfg -> sent frames, yields, closed, result); every sequence is
       replayed into the real execute_ws / generated subscription method (plain, OTel without/with tracer) through a
       scripted connection and the observed terminal state is compared with the prediction.
leg 3: the client-side event traces of those runs are validated by WsProtocol_Trace (order of sends/recvs/yields,
       every invariant in every state); a loop-back session against the installed `websockets` server is validated
       the same way (handshake clause of the statement).
"""
import json
from collections import defaultdict

from graphql import parse, print_ast

from ..common import (Verdict, run_tlc, tlc_must_pass, validate_traces_parallel, pmap, Machinery, printed_tuples,
                      NCPU, seed)
from ..gen import write_job, generate, run_in_pkg

SCHEMA = """
type Query { x: Int }
type Subscription { counter(start: Int, inp: In): Tick! }
type Tick { n: Int! label: String }
input In { a: Int camelCase: String b: String }
"""
QUERY = """subscription Count($start: Int, $inp: In) {
  counter(start: $start, inp: $inp) {
    n
    label
  }
}
"""

INVS = """INVARIANT TypeOK
INVARIANT InitFirst
INVARIANT SilentUntilAck
INVARIANT NoSubscribeWithoutAck
INVARIANT ExactlyOneSubscribe
INVARIANT YieldsAreNextDataInOrder
INVARIANT OnePongPerPing
INVARIANT TerminalMapping
INVARIANT CloseOnlyOnComplete
INVARIANT NoStuck
PROPERTY NoSendAfterEnd
PROPERTY AppendOnly
CHECK_DEADLOCK FALSE
"""


def cfg(maxframes, kinds, payloads, varmodes, export=False):
    return (f"SPECIFICATION Spec\nCONSTANTS MaxFrames = {maxframes}\n  Kinds <- {kinds}\n  InitPayloads <- {payloads}\n"
            f"  VarModes <- {varmodes}\n" + INVS + ("INVARIANT Export\n" if export else ""))


def terminals(res):
    out = []
    for t in printed_tuples(res.out, "T"):
        _, inbox, payload, vmode, sent, yielded, closed, result = t
        out.append({"inbox": inbox, "payload": payload, "vars": vmode, "sent": sent, "yielded": yielded,
                    "closed": closed, "result": result})
    return out


def observed_terminal(tr):
    sent = [e["frame"] for e in tr if e["e"] == "send"]
    yielded = [e["i"] for e in tr if e["e"] == "yield"]
    closed = any(e["e"] == "close" for e in tr)
    end = [e for e in tr if e["e"] == "end"]
    return {"sent": sent, "yielded": yielded, "closed": closed, "result": end[-1]["result"] if end else "none"}


def loopback(v, work, jobs, q):
    """Handshake clause: real `websockets` server on 127.0.0.1; 'asis' = the code as shipped, 'adapt' = keyword renamed
    by a harness-side adapter so that the remainder of a real session is still validated while F15 is open."""
    import random
    rnd = random.Random(seed())
    kinds = ["ack", "next", "ping", "pong", "complete", "error", "nonjson", "unknown", "notype", "nextnodata"]
    seqs = [["ack", "next", "ping", "next", "complete"], ["ack"], ["ack", "error"], ["next"], ["ack", "ping", "ping", "next"],
            ["ack", "nonjson"], ["ack", "next", "next", "next"], ["ack", "complete", "next"], ["ack", "pong", "nextnodata"]]
    for _ in range(12 if q else 150):
        n = rnd.randint(1, 5)
        seqs.append((["ack"] if rnd.random() < 0.85 else []) + [rnd.choice(kinds) for _ in range(n)])
    accepted = 0
    for mode in ("asis", "adapt"):
        tasks = []
        for vname, pk, tracer in (("plain", "plain", None), ("otel_tracer", "otel", "verif-tracer")):
            cs = [{"inbox": sq, "payload": i % 2 == 0, "client": vname, "tracer": tracer} for i, sq in enumerate(seqs)]
            if mode == "asis":
                cs = cs[:3]
            tasks.append((pk, cs))
        outs = pmap(lambda t: run_in_pkg(jobs[t[0]], "harness.pkg.c13_loop", {"package": "gclient", "mode": mode, "cases": t[1]},
                                         timeout=900), tasks)
        traces = [tr for o in outs for tr in o["traces"]]
        v.cov["websockets_version"] = outs[0].get("websockets_version")
        v.cov["evaluations"] += len(traces)
        good = []
        for tr in traces:
            exc = [e for e in tr if e["e"] == "exc"]
            if exc and not any(e["e"] == "connect" for e in tr):
                sig = "handshake:" + tr[-1]["result"].replace("other:", "") + (":extra_headers" if "extra_headers" in exc[0]["repr"] else "")
                v.violation({"via": "loopback", "mode": mode, "client": tr[0]["client"]}, sig, {"trace": tr})
            else:
                good.append([e for e in tr if e["e"] != "exc"])
        if good:
            rs, rejected, inv = validate_traces_parallel("WsProtocol_Trace", "WsProtocol_Trace.cfg", good, work.sub("tvl" + mode), chunks=1)
            for r in rs:
                v.add_tlc(r, f"WsProtocol_Trace loopback {mode}")
            bad = set(rejected) | {t for _, t in inv if t is not None}
            for t in sorted(bad):
                tr = good[t]
                v.violation({"via": "loopback", "mode": mode, "inbox": tr[0]["inbox"], "client": tr[0]["client"]},
                            "trace_rejected:loopback", {"trace": tr, "matched_prefix": rejected.get(t)})
            accepted += len(good) - len(bad)
            if mode == "adapt":
                v.sample(good[0])
    v.cov["loopback_sessions_accepted"] = accepted
    return accepted


def run(tier, work, replay=None):
    v = Verdict("C13", tier)
    q = tier == "quick"
    # ---- leg 1
    res = run_tlc("WsProtocol_MC", cfg(5 if q else 6, "JudgedKinds", "OnePayload", "OneVarMode"), work.sub("tlc"),
                  coverage=q, timeout=3000, extra=["-maxSetSize", "4000000"])      # 11 kinds ^ 6 frames = 1.8 M frame sequences
    tlc_must_pass(res, "WsProtocol_MC exhaustive")
    v.add_tlc(res, f"WsProtocol exhaustive judged kinds, MaxFrames={5 if q else 6}")
    if q:
        for act in ("Connect", "SendInit", "RecvFirst", "SendSubscribe", "RecvNext", "RecvPing", "RecvIgnored",
                    "RecvComplete", "RecvError", "RecvInvalid", "ServerClosed"):
            if res.coverage.get(f"WsProtocol!{act}", (0, 0))[1] == 0:
                raise Machinery(f"vacuous: action {act} never taken")
        v.cov["tlc_coverage"] = {k: list(x) for k, x in res.coverage.items() if k.startswith("WsProtocol!")}
    res2 = run_tlc("WsProtocol_MC", cfg(3 if q else 4, "AllKinds", "BothPayloads", "AllVarModes"), work.sub("tlc"), timeout=3000)
    tlc_must_pass(res2, "WsProtocol_MC all kinds/configs")
    v.add_tlc(res2, "WsProtocol exhaustive all kinds x configs")
    # ---- leg 2: export terminal states
    e1 = run_tlc("WsProtocol_MC", cfg(4 if q else 5, "JudgedKinds", "OnePayload", "OneVarMode", export=True),
                 work.sub("tlc"), workers=4, timeout=3000)
    tlc_must_pass(e1, "export 1")
    e2 = run_tlc("WsProtocol_MC", cfg(2 if q else 3, "AllKinds", "BothPayloads", "AllVarModes", export=True),
                 work.sub("tlc"), workers=4, timeout=3000)
    tlc_must_pass(e2, "export 2")
    pred = defaultdict(list)
    for t in terminals(e1) + terminals(e2):
        key = (tuple(t["inbox"]), t["payload"], t["vars"])
        p = {k: t[k] for k in ("sent", "yielded", "closed", "result")}
        if p not in pred[key]:
            pred[key].append(p)
    if len(pred) < 1000:
        raise Machinery(f"export too small: {len(pred)}")
    # ---- packages
    jobs = {}
    for name, otel in (("plain", False), ("otel", True)):
        job = write_job(work.dir / f"job_{name}", schema=SCHEMA, queries=QUERY, package="gclient",
                        options={"async_client": True, "opentelemetry_client": otel})
        r = generate(job)
        if r["exc_class"]:
            v.violation({"client": name, "stage": "generate"}, f"gen_crash:{r['exc_class']}", r["exc_msg"])
            return v.finish()
        jobs[name] = job
    variants = [("plain", "plain", None), ("otel_notracer", "otel", None), ("otel_tracer", "otel", "verif-tracer")]
    cases = []
    for (inbox, payload, vmode), _ in pred.items():
        for vname, _, _ in variants:
            cases.append({"inbox": list(inbox), "payload": payload, "vars": vmode, "via": "execute_ws", "client": vname,
                          "extra": (len(inbox) + (1 if payload else 0)) % 2 == 0})
            if len(inbox) <= 3 and vmode in ("filtered", "allunset"):
                cases.append({"inbox": list(inbox), "payload": payload, "vars": vmode, "via": "method", "client": vname,
                              "extra": False})
    if replay:
        want = {json.dumps(r["features"].get("inbox")) for r in json.loads(open(replay).read())}
        cases = [c for c in cases if json.dumps(c["inbox"]) in want] or cases
    by_variant = defaultdict(list)
    for c in cases:
        by_variant[c["client"]].append(c)
    tasks = []
    per = max(200, len(cases) // (NCPU * 2) + 1)
    for vname, pk, tracer in variants:
        cs = by_variant[vname]
        for i in range(0, len(cs), per):
            tasks.append((vname, pk, tracer, cs[i:i + per]))

    def drive(t):
        vname, pk, tracer, cs = t
        return run_in_pkg(jobs[pk], "harness.pkg.c13", {"package": "gclient", "cases": cs, "tracer": tracer}, timeout=1800)

    outs = pmap(drive, tasks)
    traces = []
    for o in outs:
        traces.extend(o["traces"])
        mq = o.get("method_query")
        if mq is None or print_ast(parse(mq)) != print_ast(parse(QUERY)):
            v.violation({"stage": "method_query"}, "subscribe:query_differs", {"sent": mq})
    v.cov["evaluations"] = len(traces)
    # ---- compare terminal states with TLC's predictions
    mism = 0
    for tr in traces:
        c = tr[0]
        key = (tuple(c["inbox"]), c["payload"], c["vars"])
        obs = observed_terminal(tr)
        if obs not in pred[key]:
            mism += 1
            judged = all(k not in ("next_falsy", "echo") for k in c["inbox"])
            feats = {"inbox": c["inbox"], "payload": c["payload"], "vars": c["vars"], "via": c["via"], "client": c["client"]}
            if judged:
                v.violation(feats, f"terminal_mismatch:{obs['result']}", {"observed": obs, "predicted": pred[key], "trace": tr})
            else:
                v.observations.append({"observed_only": feats, "observed": obs})
    # ---- leg 3: trace validation
    sel = traces if not q else [t for t in traces if len(t[0]["inbox"]) <= 3 or (hash(json.dumps(t[0]["inbox"])) + seed()) % 4 == 0]
    rs, rejected, inv = validate_traces_parallel("WsProtocol_Trace", "WsProtocol_Trace.cfg", sel, work.sub("tv"), chunk_size=2500)
    for r in rs:
        v.add_tlc(r, "WsProtocol_Trace")
    bad = set(rejected) | {t for _, t in inv if t is not None}
    for t in sorted(bad):
        tr = sel[t]
        c = tr[0]
        why = [i for i, tt in inv if tt == t]
        nxt = tr[rejected[t] - 1] if t in rejected and rejected[t] - 1 < len(tr) else None
        v.violation({"inbox": c["inbox"], "payload": c["payload"], "vars": c["vars"], "via": c["via"], "client": c["client"]},
                    "trace_rejected:" + (",".join(why) if why else f"at:{(nxt or {}).get('e')}:{(nxt or {}).get('frame', (nxt or {}).get('kind', ''))}"),
                    {"trace": tr, "matched_prefix": rejected.get(t), "unmatched_event": nxt})
    v.cov["traces_validated_against_impl"] = len(sel) - len(bad)
    loop_ok = loopback(v, work, jobs, q)
    v.cov["traces_validated_against_impl"] += loop_ok
    nontriv = {json.dumps([t[0]["inbox"], t[0]["payload"], t[0]["vars"]]) for t in traces
               if len(t[0]["inbox"]) >= 2 or t[0]["inbox"][0] != "ack"}
    v.cov["distinct_nontrivial"] = len(nontriv)
    v.cov["rule"] = ("cases = (server frame sequence, init payload?, variables mode) enumerated by TLC as terminal states of "
                     "WsProtocol; non-trivial = >=1 frame after the ack or a non-ack first frame; each replayed on plain / "
                     "OTel / OTel+tracer via execute_ws and (short ones) via a generated subscription method")
    v.cov["exhaustive"] = True
    v.cov["terminal_mismatches"] = mism
    for t in (traces[0], traces[len(traces) // 3], traces[-1]):
        v.sample(t)
    v.assumptions += ["scripted connection stops iterating after close(), like a real one",
                      "frames 'next' with null/empty data and frames typed subscribe/connection_init are observed, not judged"]
    return v.finish()
