---------------------------- MODULE Plugins_Trace ----------------------------
(* Trace validation for Plugins: a real generation with a plugin list, compared with the plugin-free package:           *)
(*    case(plist, kind)   observed(ret, queryAt, opsModule, clientImports, init, tags, loads, same_requests, same_results) *)
EXTENDS Plugins, Json, IOUtils
Traces == JsonDeserialize(IOEnv.TRACE_FILE)
N == Len(Traces)
ASSUME \A t \in 1..N : TLCSet(t, 0)
TLists == {Traces[t][1].plist : t \in 1..N}
TKinds == {Traces[t][1].kind : t \in 1..N}
NoDev == {}
AsBuilt == {"fwdrefs_blinds_shorter"}
VARIABLES tid, l
tvars == <<vars, tid, l>>
Ev == Traces[tid][l]
TraceInit == /\ tid \in 1..N /\ l = 2 /\ plist = Traces[tid][1].plist /\ kind = Traces[tid][1].kind /\ phase = "operation_str"
             /\ ret = "full_model" /\ queryAt = "inline" /\ opsRecorded = FALSE /\ opsModule = FALSE
             /\ clientImports = "module_level" /\ init = "reexports" /\ tags = <<>>
T_Silent == Next /\ l' = l /\ tid' = tid
T_Observed == /\ l <= Len(Traces[tid]) /\ Ev.e = "observed" /\ l' = l + 1 /\ tid' = tid /\ Done
              /\ Ev.loads /\ Ev.same_requests /\ Ev.same_results
              /\ Ev.ret = ret /\ Ev.queryAt = queryAt /\ Ev.opsModule = opsModule /\ Ev.clientImports = clientImports
              /\ Ev.init = init /\ Ev.tags = tags
              /\ UNCHANGED vars
TraceNext == T_Silent \/ T_Observed
TraceSpec == TraceInit /\ [][TraceNext]_tvars
Reached == TLCSet(tid, IF l > TLCGet(tid) THEN l ELSE TLCGet(tid))
Accepted ==
  LET bad == {t \in 1..N : TLCGet(t) # Len(Traces[t]) + 1} IN
  /\ \A t \in bad : PrintT(<<"REJECTED", t, TLCGet(t)>>)
  /\ bad = {}
=============================================================================
