----------------------------- MODULE InputModel -----------------------------
(* C06 -- a generated input model vs. the schema's own input coercion.                                                  *)
(* Code: input_types.InputTypesGenerator._parse_input_definition, input_fields.parse_input_field_type /                  *)
(* parse_input_field_default_value / parse_input_const_value_node, base_model.BaseModel (populate_by_name).              *)
(* One behaviour = one use of one field of one input class: Construct -> ReadBack -> Dump -> ServerCoerce.               *)
EXTENDS Naturals, Sequences, FiniteSets, TLC

CONSTANTS DefaultKinds,     \* the literal kinds a field default may have ("nodefault" = the field has none)
          NameClasses,      \* classes of GraphQL field names ("plain", "camel", "keyword", "reserved" (pydantic attribute), "under")
          Deviations        \* subset of DefaultKinds whose emitted default is known to be wrong (open findings)

\* how the caller builds the model for this field
Hows == {"python_name", "graphql_name"}
Givens == {"unset", "null", "value"}
Fields == [dflt : DefaultKinds, nonnull : BOOLEAN, name : NameClasses]
\* `T! = null` is not a valid schema, whatever T is (a scalar, a list, a nested list, a list of enums, an input object)
NullDefaultKinds == {"null", "list_null", "nested_list_null", "enum_list_null", "object_null"}
ValidField(f) == ~(f.nonnull /\ f.dflt \in NullDefaultKinds)
\* fields without a default: of a built-in type ("nodefault"), of a custom scalar the configuration does not map (emitted as
\* Any: "nodefault_unmapped"), of an enum / input-object type ("nodefault_enum", "nodefault_object")
NoDefaultKinds == {"nodefault", "nodefault_unmapped", "nodefault_enum", "nodefault_object", "nodefault_list_nullable_items",
                   "nodefault_nested_list"}
NoDefault(f) == f.dflt \in NoDefaultKinds
Required(f) == f.nonnull /\ NoDefault(f)

VARIABLES f, how, given, stage,
          model,      \* "built" | "rejected" : did constructing the model succeed?
          readback,   \* value read from the instance for this field: "value" | "null" | "default" | "wrong" | "-"
          dumped,     \* field in model_dump(by_alias=True, exclude_unset=True): "absent" | "value" | "null" | "-"
          server      \* what the resolver finally receives: "value" | "null" | "default" | "absent" | "wrong" | "-"
vars == <<f, how, given, stage, model, readback, dumped, server>>

Init == /\ f \in {x \in Fields : ValidField(x)} /\ how \in Hows /\ given \in Givens
        /\ (given = "null" => ~f.nonnull)                \* only schema-valid values are offered
        /\ stage = "start" /\ model = "-" /\ readback = "-" /\ dumped = "-" /\ server = "-"

\* Model(**{name: v})  -- populate_by_name accepts the Python name and the alias
Construct ==
  /\ stage = "start" /\ stage' = "constructed"
  /\ model' = IF given = "unset" /\ Required(f) THEN "rejected" ELSE "built"
  /\ UNCHANGED <<f, how, given, readback, dumped, server>>
ReadBack ==
  /\ stage = "constructed" /\ model = "built" /\ stage' = "read"
  /\ readback' = CASE given = "value" -> "value" [] given = "null" -> "null"
                   [] NoDefault(f) -> "null"
                   [] f.dflt \in Deviations -> "wrong"
                   [] OTHER -> "default"
  /\ UNCHANGED <<f, how, given, model, dumped, server>>
Dump ==
  /\ stage = "read" /\ stage' = "dumped"
  /\ dumped' = CASE given = "value" -> "value" [] given = "null" -> "null" [] OTHER -> "absent"
  /\ UNCHANGED <<f, how, given, model, readback, server>>
\* the server coerces the input object: an absent field gets the schema default
ServerCoerce ==
  /\ stage = "dumped" /\ stage' = "served"
  /\ server' = CASE dumped = "value" -> "value" [] dumped = "null" -> "null"
                 [] NoDefault(f) -> "absent" [] OTHER -> "default"
  /\ UNCHANGED <<f, how, given, model, readback, dumped>>
Next == Construct \/ ReadBack \/ Dump \/ ServerCoerce
Spec == Init /\ [][Next]_vars

\* ---- properties ----------------------------------------------------------------------------------------------
\* every value the schema's input coercion accepts can be passed, by either name
AcceptsCanonical == (stage # "start" /\ ~(given = "unset" /\ Required(f))) => model = "built"
RejectsMissingRequired == (stage # "start" /\ given = "unset" /\ Required(f)) => model = "rejected"
\* an instance created without the field reads back the coerced schema default
DefaultReadsBack == (stage \in {"read", "dumped", "served"} /\ given = "unset" /\ ~NoDefault(f)) => readback = "default"
DefaultReadsBackK == DefaultReadsBack \/ f.dflt \in Deviations
\* ... and the value the server finally sees equals that default
ServerSeesDefault == (stage = "served" /\ given = "unset" /\ ~NoDefault(f)) => server = "default"
ServerSeesValue == (stage = "served" /\ given # "unset") => server = (IF given = "null" THEN "null" ELSE "value")
=============================================================================
