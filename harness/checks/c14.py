"""C14 -- the custom operation builder emits valid, faithful, history-free documents.

leg 1: TLC checks Builder (heap with shared class-level field objects, to_ast variable naming, variable collection)
       for DocValid / ArgsExact / history-freedom, as built (alias leak deviation) and as intended (AliasCopies).
leg 2: TLC exports every finished history (expression trees + predicted documents), exhaustively for small bounds and
       by -simulate for larger ones; each is replayed step by step into the generated custom_fields/custom_queries
       classes and Client.query() (sync and async); the captured document is parsed, validated with graphql-core,
       executed with recording resolvers and compared with the expression.
leg 3: the add/build event traces of those runs are validated by Builder_Trace (document = Doc(heap) modulo variable
       spelling, every invariant in every state).
"""
import json

from ..common import (Verdict, run_tlc, tlc_must_pass, validate_traces_parallel, pmap, Machinery, printed_tuples, NCPU,
                      seed)
from ..gen import write_job, generate, run_in_pkg

SCHEMA = """
scalar Date
enum Color { RED GREEN }
input Filter { nameLike: String tags: [String!] color: Color }
interface Node { id: ID! }
type Item implements Node { id: ID! displayName: String color: Color owner: Person related(firstN: Int, filter: Filter): [Item!]! createdAt: Date thumb(size: Int, format: String): String }
type Person implements Node { id: ID! fullName: String items(ids: [ID!]!, since: Date): [Item!] avatar(size: Int!, format: String): String }
union SearchResult = Item | Person
type Query { item(id: ID!): Item items(ids: [ID!]!, colors: [Color], filter: Filter): [Item!]! search(text: String!, maxHits: Int = 10): [SearchResult!]! node(id: ID!): Node maybe(id: ID): Item me: Person version: String }
type Mutation { renameItem(itemId: ID!, newName: String!): Item }
"""
SHARED = {"Item.id", "Item.displayName", "Item.createdAt", "Person.id", "Person.fullName", "Node.id"}


def cfg(maxnodes, maxops, aliases, copies, invs, export=False):
    return (f"SPECIFICATION Spec\nCONSTANTS MaxNodes = {maxnodes}\n MaxOps = {maxops}\n Aliases <- {aliases}\n"
            f" AliasCopies = {'TRUE' if copies else 'FALSE'}\n" + "".join(f"INVARIANT {i}\n" for i in invs)
            + ("INVARIANT Export\n" if export else "") + "CHECK_DEADLOCK FALSE\n")


def histories(res):
    seen = {}
    for t in printed_tuples(res.out, "H"):
        _, hist, docs = t
        key = json.dumps(hist, sort_keys=True)
        seen[key] = (hist, docs)
    # keep only maximal histories (a history that is a proper prefix of another exported one adds nothing)
    keys = set(seen)
    out = []
    for key, (hist, docs) in seen.items():
        out.append((hist, docs))
    return out


def nontrivial(hist):
    return len(hist) >= 2 or any(nd["parent"] != 0 or nd["given"] or nd["alias"] != "-" or nd["frag"] != "-"
                                 or nd["f"] not in ("Query.me", "Query.version") for nd in hist[0])


def run(tier, work, replay=None):
    v = Verdict("C14", tier)
    q = tier == "quick"
    AS_BUILT = ["DocValid", "ArgsExact", "HistoryFreeUpToLeak"]
    # ---- leg 1 + exhaustive export (single operation), histories, simulation -- run concurrently
    jobs_tlc = [
        ("r1", dict(cfg=cfg(3 if q else 4, 1, "OneAlias", False, AS_BUILT, export=True), workers=6, coverage=q)),
        ("r2", dict(cfg=cfg(2, 2, "OneAlias", False, AS_BUILT), workers=6)),
        ("sim", dict(cfg=cfg(5, 3, "TwoAliases", False, AS_BUILT, export=True), workers=4,
                     simulate=f"num={400 if q else 6000}", depth=14, extra=["-seed", str(seed() + 7)])),
    ]
    if not q:
        jobs_tlc.append(("r3", dict(cfg=cfg(2, 2, "OneAlias", True, ["DocValid", "ArgsExact", "HistoryFree"]), workers=6)))

    def tlc_job(j):
        name, kw = j
        c = kw.pop("cfg")
        return name, run_tlc("Builder_MC", c, work.sub("tlc_" + name), timeout=3400, **kw)
    rr = dict(pmap(tlc_job, jobs_tlc))
    r1, sim = rr["r1"], rr["sim"]
    for name, label in (("r1", f"Builder as built, MaxNodes={3 if q else 4}, MaxOps=1"), ("r2", "Builder as built, MaxNodes=2, MaxOps=2"),
                        ("r3", "Builder intended design (AliasCopies), strict HistoryFree"), ("sim", "Builder simulate (export)")):
        if name in rr:
            tlc_must_pass(rr[name], label)
            if name != "sim":
                v.add_tlc(rr[name], label)
    if q:
        nexts = [x for k, x in r1.coverage.items() if k.startswith("Builder!Next@")]
        if r1.coverage.get("Builder!Build", (0, 0))[1] == 0 or not nexts or max(x[1] for x in nexts) == 0:
            raise Machinery("vacuous: Build/AddNode never taken")
        v.cov["tlc_coverage"] = {k: list(x) for k, x in r1.coverage.items() if k.startswith("Builder!")}
    hs = histories(r1) + histories(sim)
    if replay:
        want = {json.dumps(r["features"].get("hist"), sort_keys=True) for r in json.loads(open(replay).read())}
        hs = [h for h in hs if json.dumps(h[0], sort_keys=True) in want] or hs
    if len(hs) < 500:
        raise Machinery(f"too few exported histories: {len(hs)}")
    # ---- packages (sync + async)
    jobs = {}
    for name, a in (("sync", False), ("async", True)):
        job = write_job(work.dir / f"job_{name}", schema=SCHEMA, queries=None, package="gclient",
                        options={"enable_custom_operations": True, "async_client": a})
        r = generate(job)
        if r["exc_class"]:
            v.violation({"client": name, "stage": "generate"}, f"gen_crash:{r['exc_class']}", r["exc_msg"])
            return v.finish()
        jobs[name] = job
    tasks = []
    per = max(100, len(hs) // NCPU + 1)
    for name in jobs:
        sel = hs if name == "sync" else hs[:: (4 if q else 2)]
        for i in range(0, len(sel), per):
            tasks.append((name, sel[i:i + per]))

    def drive(t):
        name, part = t
        o = run_in_pkg(jobs[name], "harness.pkg.c14", {"package": "gclient", "async": name == "async", "schema": SCHEMA,
                                                       "histories": [h for h, _ in part]}, timeout=3000)
        return [(name, h, d, tr) for (h, d), tr in zip(part, o["traces"])]

    runs = [x for out in pmap(drive, tasks) for x in out]
    v.cov["evaluations"] = sum(len(h) for _, h, _, _ in runs)
    # ---- judge each captured document against the expression (the property) and against TLC's prediction
    for name, hist, docs, tr in runs:
        builds = [e for e in tr if e["e"] == "build"]
        for k, (tree, pred, ev) in enumerate(zip(hist, docs, builds)):
            feats = {"client": name, "op": k + 1, "hist": hist}
            if ev.get("crash"):
                v.violation(feats, "builder_crash:" + ev["crash"].split(":")[0], ev)
                continue
            obs = ev["doc"]["nodes"]
            leak_active = any(nd["f"] in SHARED and p["alias"] != nd["alias"] for nd, p in zip(tree, pred["nodes"]))
            if not ev["valid"] and leak_active:
                v.violation(dict(feats, leak="shared_alias"), "history:alias_leak:doc_invalid",
                            {"query": ev.get("query"), "errors": ev.get("validation_errors")})
            elif not ev["valid"]:
                v.violation(feats, "doc_invalid", {"query": ev.get("query"), "errors": ev.get("validation_errors")})
            elif not ev["vars_unique"]:
                v.violation(feats, "vars_not_declared_once", {"query": ev.get("query")})
            elif not ev["values_ok"] and not (leak_active and not ev["valid"]):
                v.violation(feats, "values_not_bound", {"query": ev.get("query"), "saw": ev.get("resolver_saw"), "exec": ev.get("exec_errors")})
            # structure vs the expression itself (PureDoc): names, aliases, placement, arguments present
            if len(obs) != len(tree):
                v.violation(feats, "structure:node_count", {"query": ev.get("query")})
                continue
            for i, (nd, o, p) in enumerate(zip(tree, obs, pred["nodes"])):
                want_args = [a[0] for a in p["args"]]
                if o["name"] != p["name"] or o["parent"] != nd["parent"] or o["frag"] != nd["frag"]:
                    v.violation(feats, "structure:field", {"node": i + 1, "observed": o, "query": ev.get("query")})
                elif o["args"] != want_args:
                    v.violation(feats, "structure:arguments", {"node": i + 1, "observed": o["args"], "expected": want_args})
                elif o["alias"] != nd["alias"]:
                    leak = nd["f"] in SHARED and o["alias"] == p["alias"]
                    f2 = dict(feats)
                    f2["leak"] = "shared_alias" if leak else "other"
                    v.violation(f2, "history:alias_leak" if leak else "structure:alias", {"node": i + 1, "observed": o["alias"], "written": nd["alias"]})
            # drift: variable spelling differs from the transcribed naming algorithm
            pv = [[i + 1, a[0], a[1]] for i, p in enumerate(pred["nodes"]) for a in p["args"]]
            if ev.get("var_names") is not None and ev["var_names"] != pv:
                v.note_drift(f"variable spelling differs from spec: {ev['var_names']} vs {pv}")
    # ---- leg 3
    traces = [[{k: x[k] for k in x if k in ("e", "f", "parent", "frag", "alias", "given", "m", "j", "doc", "valid", "values_ok", "vars_unique")}
               for x in tr] for _, _, _, tr in runs]
    rs, rejected, inv = validate_traces_parallel("Builder_Trace", "Builder_Trace.cfg", traces, work.sub("tv"), chunk_size=1500)
    for r in rs:
        v.add_tlc(r, "Builder_Trace")
    bad = set(rejected) | {t for _, t in inv if t is not None}
    for t in sorted(bad):
        name, hist, docs, tr = runs[t]
        why = [i for i, tt in inv if tt == t]
        at = tr[rejected[t] - 1] if t in rejected and rejected[t] - 1 < len(tr) else {}
        v.violation({"client": name, "hist": hist}, "trace_rejected:" + (",".join(why) or f"at:{at.get('e')}"),
                    {"matched_prefix": rejected.get(t), "event": {k: at.get(k) for k in ("e", "query", "valid", "values_ok", "vars_unique", "doc")}})
    v.cov["traces_validated_against_impl"] = len(traces) - len(bad)
    v.cov["distinct_nontrivial"] = len({json.dumps(h, sort_keys=True) for _, h, _, _ in runs if nontrivial(h)})
    v.cov["rule"] = ("histories = sequences of operations, each an expression tree enumerated by TLC (exhaustive single "
                     "operations up to MaxNodes; simulated histories up to 3 operations x 5 nodes); non-trivial = depth>=2 or an "
                     "argument, alias or inline fragment, or >=2 operations")
    v.cov["exhaustive"] = True
    v.cov["histories_replayed"] = len(runs)
    for i in (0, len(runs) // 2, len(runs) - 1):
        name, hist, docs, tr = runs[i]
        v.sample({"client": name, "history": hist, "queries": [e.get("query") for e in tr if e["e"] == "build"]})
    v.assumptions += ["graphql-core validate/execute is the reference for document validity and value delivery",
                      "optional arguments are given all-or-none per node (space reduction)"]
    return v.finish()
