from gen import *
import re, ast as pyast
schema = '''
interface Node { id: ID! }
type User implements Node { id: ID! name: String! email: String }
type Bot implements Node { id: ID! model: String! }
union SR = User | Bot
type Query { node: Node! user(q: String): User search(q: String): [SR!]! nodes: [Node]! }
'''
def client_src(d, n): return (d/n/"client.py").read_text()
def extract_queries(d, n):
    sys.path.insert(0, str(d))
    m = importlib.import_module(n + ".client")
    return m

print("=== E2 mixin on fragment definition")
q = '''
fragment UF on User @mixin(from: ".mx", import: "M") { id }
query A { user { ...UF } }
'''
d, n, r = generate(schema, q, files={"mx.py": "class M: pass\n"}, extra='files_to_include=["mx.py"]'); show(r)
src = client_src(d, n); print(src[src.find("def a"):][:600])

print("=== E3 string escapes")
for lit in [r'"a\nb"', r'"it' + "'" + r's"', r'"a\\nb"', r'"say \"hi\""', '"""block\n  text"""', r'"x = \'y\' # z"', '" x"']:
    q = 'query A { user(q: %s) { id } }' % lit
    d, n, r = generate(schema, q)
    if r.exception: show(r); continue
    try:
        src = client_src(d, n)
        tree = pyast.parse(src)
    except SyntaxError as e:
        print(lit, "-> client.py SyntaxError", e); continue
    # evaluate the gql string
    for node in pyast.walk(tree):
        if isinstance(node, pyast.Call) and getattr(node.func, "id", "") == "gql":
            val = pyast.literal_eval(node.args[0])
            from graphql import parse, print_ast
            try:
                doc = parse(val)
                arg = doc.definitions[0].selection_set.selections[0].arguments[0].value.value
                orig = parse(q).definitions[0].selection_set.selections[0].arguments[0].value.value
                print(repr(lit), "->", "SAME" if arg == orig else f"DIFF sent={arg!r} orig={orig!r}")
            except Exception as e:
                print(repr(lit), "-> sent doc does not parse:", e, repr(val))
