----------------------------- MODULE Pruning_MC -----------------------------
EXTENDS Pruning, TLCExt
AllFlags == [allInputs : BOOLEAN, allEnums : BOOLEAN]
PruneBoth == {[allInputs |-> FALSE, allEnums |-> FALSE]}
\* deviation used as anti-vacuity: the enums module written before the client's argument enums are collected
EnumsBeforeClient == {<<"inputs", "results", "fragments", "copy", "enums", "client", "init">>}
TheCodeOrder == {CodeOrder}
SampleOneIn == 1
Sample20 == 20
Sample100 == 100
Sample400 == 400
Sample2000 == 2000
Sample40 == 40
Sample800 == 800
Export == (Finished /\ RandomElement(1..SampleOneIn) = 1) =>
  PrintT(<<"P", [i \in Inputs |-> SetToSortSeq(deps[i], <)], [i \in Inputs |-> SetToSortSeq(inEnums[i], <)],
           [k \in DOMAIN ops |-> [varIn |-> SetToSortSeq(ops[k].varIn, <), varEn |-> SetToSortSeq(ops[k].varEn, <),
                                  resEn |-> SetToSortSeq(ops[k].resEn, <), fragEn |-> SetToSortSeq(ops[k].fragEn, <)]],
           flags.allInputs, flags.allEnums,
           SetToSortSeq(written.inputs, <), SetToSortSeq(written.enums, <)>>)
=============================================================================
