"""The repository's own example projects (tests/main/clients/*, tests/main/graphql_schemas/*) as a corpus of realistic
inputs: schema + queries + configuration as their authors wrote them.  Used as additional inputs by C10 (determinism) and
C04 (generates and loads); nothing of their expected_* output is used."""
from __future__ import annotations

import re
import shutil
import tomllib
from pathlib import Path

from .common import REPO

SKIP = {"remote_schema", "invalid_pyprojects"}          # needs a network endpoint / are the invalid-input fixtures of C17


def projects():
    out = []
    for base, strategy in ((REPO / "tests" / "main" / "clients", "client"), (REPO / "tests" / "main" / "graphql_schemas", "graphqlschema")):
        if not base.is_dir():
            continue
        for d in sorted(p for p in base.iterdir() if p.is_dir() and p.name not in SKIP):
            cfgs = [c for c in ("pyproject.toml", "config.toml") if (d / c).exists()]
            if not cfgs:
                continue
            out.append({"name": f"{strategy}:{d.name}", "strategy": strategy, "dir": d, "config": cfgs[0]})
    return out


def stage(job: Path, proj, comments: str | None = "stable"):
    """copy the project (without its expected output) into job; returns (config file name or None, target path)"""
    job.mkdir(parents=True, exist_ok=True)
    for p in proj["dir"].iterdir():
        if p.name.startswith("expected") or p.name == "__pycache__":
            continue
        if p.is_dir():
            shutil.copytree(p, job / p.name, dirs_exist_ok=True)
        else:
            shutil.copy(p, job / p.name)
    cfgp = job / proj["config"]
    text = cfgp.read_text()
    if comments is not None:
        if re.search(r"^include_comments\s*=.*$", text, flags=re.M):
            text = re.sub(r"^include_comments\s*=.*$", f'include_comments = "{comments}"', text, flags=re.M)
        cfgp.write_text(text)
    sec = tomllib.loads(text).get("tool", {}).get("ariadne-codegen", {})
    if proj["strategy"] == "client":
        target = job / sec.get("target_package_path", ".") / sec.get("target_package_name", "graphql_client")
    else:
        target = job / sec.get("target_file_path", "schema_types.py")
    return (None if proj["config"] == "pyproject.toml" else proj["config"]), target
