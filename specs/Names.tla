-------------------------------- MODULE Names --------------------------------
(* C18 -- how a GraphQL name becomes a Python name.                                                                    *)
(* Code: utils.str_to_snake_case (a regex with three alternatives and a look-ahead) and utils.process_name (keyword /    *)
(* pydantic-reserved suffixing, leading-underscore trimming, all-underscore fallback).  Names are sequences of           *)
(* one-character strings over a reduced alphabet chosen so that real keywords (if, is, in) and reserved names are         *)
(* reachable; the regex is transcribed as the left-to-right scanner re.findall performs.                                 *)
EXTENDS Naturals, Sequences, FiniteSets, TLC, SequencesExt

CONSTANTS Names,           \* the GraphQL names explored (sequences of characters; [_A-Za-z][_0-9A-Za-z]*)
          Keywords,        \* Python keywords (as sequences)
          Reserved         \* public pydantic.BaseModel attribute names (as sequences)

LowerSeq26 == <<"a", "b", "c", "d", "e", "f", "g", "h", "i", "j", "k", "l", "m", "n", "o", "p", "q", "r", "s", "t", "u", "v", "w", "x", "y", "z">>
UpperSeq26 == <<"A", "B", "C", "D", "E", "F", "G", "H", "I", "J", "K", "L", "M", "N", "O", "P", "Q", "R", "S", "T", "U", "V", "W", "X", "Y", "Z">>
Lower == Range(LowerSeq26)
Upper == Range(UpperSeq26)
Digit == {"0", "1", "2", "3", "4", "5", "6", "7", "8", "9"}
IsL(c) == c \in Lower
IsU(c) == c \in Upper
IsD(c) == c \in Digit
ToLower(c) == IF c \in Upper THEN LowerSeq26[CHOOSE i \in 1..26 : UpperSeq26[i] = c] ELSE c

\* ---- str_to_snake_case: re.findall(r"[A-Z]?[a-z]+|[A-Z]+(?=[A-Z][a-z]|\d|\W|_|$)|\d+", name) ----------------
\* length of the longest run of characters satisfying P starting at position i
RECURSIVE RunL(_, _), RunU(_, _), RunD(_, _)
RunL(n, i) == IF i <= Len(n) /\ IsL(n[i]) THEN 1 + RunL(n, i + 1) ELSE 0
RunU(n, i) == IF i <= Len(n) /\ IsU(n[i]) THEN 1 + RunU(n, i + 1) ELSE 0
RunD(n, i) == IF i <= Len(n) /\ IsD(n[i]) THEN 1 + RunD(n, i + 1) ELSE 0
\* look-ahead of the second alternative at position j (first character after the candidate upper-case word)
LookAhead(n, j) == \/ j > Len(n)                                        \* $
                   \/ IsD(n[j]) \/ n[j] = "_"                            \* \d | _      (\W cannot occur in a name)
                   \/ (IsU(n[j]) /\ j + 1 <= Len(n) /\ IsL(n[j + 1]))    \* [A-Z][a-z]
\* the match at position i: <<kind, length>>, kind 0 = no alternative matches here (the character is skipped)
MatchAt(n, i) ==
  LET c == n[i]
      lowAfter(k) == RunL(n, k)
      ups == RunU(n, i)
      \* alternative 2 backtracks from the longest run of capitals to the longest prefix whose look-ahead holds
      good == {k \in 1..ups : LookAhead(n, i + k)} IN
  IF IsL(c) THEN <<1, lowAfter(i)>>
  ELSE IF IsU(c) /\ lowAfter(i + 1) > 0 THEN <<1, 1 + lowAfter(i + 1)>>
  ELSE IF IsU(c) /\ good # {} THEN <<2, CHOOSE k \in good : \A m \in good : m <= k>>
  ELSE IF IsD(c) THEN <<3, RunD(n, i)>>
  ELSE <<0, 1>>
RECURSIVE Words(_, _)
Words(n, i) == IF i > Len(n) THEN <<>>
               ELSE LET m == MatchAt(n, i) IN
                    IF m[1] = 0 THEN Words(n, i + 1)
                    ELSE <<[k \in 1..m[2] |-> ToLower(n[i + k - 1])]>> \o Words(n, i + m[2])
RECURSIVE Join(_)
Join(ws) == IF ws = <<>> THEN <<>> ELSE IF Len(ws) = 1 THEN ws[1] ELSE ws[1] \o <<"_">> \o Join(Tail(ws))
Snake(n) == Join(Words(n, 1))

\* ---- process_name ----------------------------------------------------------------------------------------------
RECURSIVE LStrip(_)
LStrip(n) == IF n # <<>> /\ n[1] = "_" THEN LStrip(Tail(n)) ELSE n
AllUnderscore(n) == \A i \in 1..Len(n) : n[i] = "_"
Fallback == <<"u", "n", "d", "e", "r", "s", "c", "o", "r", "e", "_", "n", "a", "m", "e", "d", "_", "f", "i", "e", "l", "d", "_">>
\* flags: snake = convert_to_snake_case, trim = trim_leading_underscore, res = handle_pydantic_reserved_field_names
Process(n, snake, trim, res) ==
  LET a == IF snake THEN Snake(n) ELSE n
      b == IF trim THEN LStrip(a) ELSE a
      c == IF b \in Keywords THEN Append(b, "_") ELSE b
      d == IF res /\ c \in Reserved THEN Append(c, "_") ELSE c IN
  IF AllUnderscore(n) /\ d = <<>> THEN Fallback ELSE d

\* ---- the laws ----------------------------------------------------------------------------------------------------
IsIdentifier(p) == p # <<>> /\ ~IsD(p[1])
AlNum(p) == SelectSeq(p, LAMBDA c : c # "_")
LowerSeq(p) == [i \in 1..Len(p) |-> ToLower(p[i])]
Laws(n, snake, trim, res) ==
  LET p == Process(n, snake, trim, res) IN
  [ identifier |-> IsIdentifier(p),
    not_keyword |-> p \notin Keywords,
    not_reserved |-> (res => p \notin Reserved),
    idempotent |-> Process(p, snake, trim, res) = p,
    keeps_alnum |-> (AllUnderscore(n) \/ LowerSeq(AlNum(p)) = LowerSeq(AlNum(n))) ]
Lawful(n, snake, trim, res) == LET l == Laws(n, snake, trim, res) IN
  l.identifier /\ l.not_keyword /\ l.not_reserved /\ l.idempotent /\ l.keeps_alnum

\* ---- a state machine over names and pairs (so that TLC enumerates, counts and reports) ---------------------------
CONSTANTS Deviations,      \* {"silent_merge"} as built: two names of one scope that map to one Python name are merged
          PlantNames       \* the names a second name of the scope is drawn from (a subset of Names keeps the pair space finite)
VARIABLES name, other, flags, out, outOther, fate
vars == <<name, other, flags, out, outOther, fate>>
FlagSets == [snake : BOOLEAN, trim : BOOLEAN, res : BOOLEAN]
\* fate of a pair planted in one scope: "single" (no second name), "distinct", "refused" (generation error), "merged"
Init == /\ name \in Names /\ other = <<>> /\ flags \in FlagSets /\ out = <<"?">> /\ outOther = <<"?">> /\ fate = "single"
Map == /\ out = <<"?">> /\ out' = Process(name, flags.snake, flags.trim, flags.res)
       /\ UNCHANGED <<name, other, flags, outOther, fate>>
\* a second, different name in the same scope (selection set, input type, variable list, enum, client)
Plant(o) ==
  /\ out # <<"?">> /\ other = <<>> /\ o # name
  /\ other' = o /\ outOther' = Process(o, flags.snake, flags.trim, flags.res)
  /\ fate' = IF outOther' # out THEN "distinct" ELSE IF "silent_merge" \in Deviations THEN "merged" ELSE "refused"
  /\ UNCHANGED <<name, flags, out>>
Next == Map \/ \E o \in PlantNames : Plant(o)
Spec == Init /\ [][Next]_vars
\* known deviations of the as-built mapping (open findings):
\*  digit_first : leading underscores in front of a digit are dropped (by snake-casing or by trimming): "_1" -> "1"
\*  fallback    : the all-underscore fallback "underscore_named_field_" is not a fixed point (snake-casing eats its tail)
DigitFirst == LET p == Process(name, flags.snake, flags.trim, flags.res) IN p # <<>> /\ IsD(p[1])
LawsHoldOrKnown == out # <<"?">> => (Lawful(name, flags.snake, flags.trim, flags.res) \/ DigitFirst \/ AllUnderscore(name))
\* two distinct names of one scope are never silently merged into one Python name
Collide(a, b, snake, trim, res) == a # b /\ Process(a, snake, trim, res) = Process(b, snake, trim, res)
NoSilentMerge == fate # "merged"
NoSilentMergeK == fate = "merged" => "silent_merge" \in Deviations
=============================================================================
