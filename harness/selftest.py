"""Binding self-test (DESIGN 9): for every trace spec, recorded good traces must be ACCEPTED and the same traces with
(a) one logged field corrupted, (b) one event removed must be REJECTED.  Run by bin/setup and by `./bin/check --selftest`.
A trace spec that accepts a corrupted trace constrains nothing; this is what shows the specs are bound, not admired."""
import copy
import json
import sys

from .common import Work, validate_traces, SPECS, Machinery
from .checks.c08 import TRACE_CFG as FRAG_CFG
from .checks.c09 import TRACE_CFG as PRUNE_CFG

RECIPES = {
    "HttpOutcome_Trace": ("HttpOutcome_Trace.cfg", {}),
    "WsProtocol_Trace": ("WsProtocol_Trace.cfg", {}),
    "Builder_Trace": ("Builder_Trace.cfg", {}),
    "Requests_Trace": ("Requests_Trace.cfg", {}),
    "Variables_Trace": ("Variables_Trace.cfg", {}),
    "Plugins_Trace": ("Plugins_Trace.cfg", {}),
    "Pruning_Trace": (None, {}),
    "FragmentsPkg_Trace": (None, {}),
    "Determinism_Trace": ("Determinism_Trace.cfg", {}),
    "GenConfig_Trace": ("GenConfig_Trace.cfg", {"OUT_FILE": "", "MAXON": "2"}),
    "InputModel_Trace": ("InputModel_Trace.cfg", {"DEV_FILE": "@fixture"}),
    "Names_Trace": ("Names_Trace.cfg", {"LISTS_FILE": "@fixture"}),
    "OpText_Trace": ("OpText_Trace.cfg", {}),
    "SchemaCopy_Trace": ("SchemaCopy_Trace.cfg", {"OUT_FILE": "", "MAXON": "2"}),
    "SchemaSource_Trace": ("SchemaSource_Trace.cfg", {"OUT_FILE": ""}),
    "Telemetry_Trace": ("Telemetry_Trace.cfg", {}),
    "TelemetryHttp_Trace": ("TelemetryHttp_Trace.cfg", {}),
}


# fields that are logged for the reader of a replay file and deliberately not bound by the trace specs (the properties say
# nothing about them): corrupting them must NOT lead to a rejection, so they are no test of the binding
INFORMATIONAL = {"str"}


def corrupt_field(trace):
    """flip / alter the last observable scalar in the last event that has one"""
    t = copy.deepcopy(trace)
    for ev in reversed(t[1:]):
        for k in sorted(ev, reverse=True):
            v = ev[k]
            if k == "e" or k in INFORMATIONAL:
                continue
            if isinstance(v, bool):
                ev[k] = not v
                return t
            if isinstance(v, int):
                ev[k] = v + 7
                return t
            if isinstance(v, str) and v not in ("unknown",):
                ev[k] = v + "_corrupted"
                return t
            if isinstance(v, list) and v and all(isinstance(x, (int, str)) for x in v):
                ev[k] = v[:-1]
                return t
    return None


def corrupt_digest(trace):
    t = copy.deepcopy(trace)
    t[-1]["digest"] = "0" * 64
    return t


# a history of runs with one run left out is still a legal history: only the digest binds Determinism_Trace
ONLY = {"Determinism_Trace": ((corrupt_digest, "field"), (corrupt_field, "field"))}


def drop_event(trace):
    if len(trace) < 3:
        return None
    t = copy.deepcopy(trace)
    del t[len(t) // 2 if len(t) > 3 else 1]
    return t


def cfg_for(module, traces):
    if module == "Pruning_Trace":
        return PRUNE_CFG.format(nin=len(traces[0][0]["deps"]), nen=max(1, max([e for row in traces[0][0]["inEnums"] for e in row] + [e for o in traces[0][0]["ops"] for k in ("varEn", "resEn", "fragEn") for e in o[k]] + [1])))
    if module == "FragmentsPkg_Trace":
        return FRAG_CFG.format(nf=len(traces[0][0]["defs"]))
    return RECIPES[module][0]


def main():
    work = Work("selftest")
    failures = []
    try:
        for module in RECIPES:
            fx = SPECS / "fixtures" / f"{module}.json"
            traces = json.loads(fx.read_text())
            groups = [traces]
            if module in ("Pruning_Trace", "FragmentsPkg_Trace"):
                groups = [[t] for t in traces]
            env = {k: (str(SPECS / "fixtures" / f"{module}.{k}.json") if v == "@fixture" else v) for k, v in RECIPES[module][1].items()} or None
            for g in groups:
                cfg = cfg_for(module, g)
                _, rej, inv = validate_traces(module, cfg, g, work.sub(module), env=env)
                if rej or inv:
                    failures.append(f"{module}: a recorded good trace was rejected ({rej}, {inv})")
                    continue
                bad = []
                for t in g:
                    for mut, name in ONLY.get(module, ((corrupt_field, "field"), (drop_event, "drop"))):
                        m = mut(t)
                        if m is not None:
                            bad.append((name, m))
                for name, m in bad:
                    try:
                        _, rej, inv = validate_traces(module, cfg, [m], work.sub(module), env=env)
                    except Machinery:
                        continue      # TLC could not even evaluate the corrupted trace: rejected
                    if not rej and not inv:
                        failures.append(f"{module}: a trace with a {'corrupted field' if name == 'field' else 'removed event'} was ACCEPTED: {json.dumps(m)[:300]}")
    finally:
        work.cleanup()
    for f in failures:
        print("SELFTEST-FAIL", f)
    print(f"selftest: {len(RECIPES)} trace specs, {len(failures)} failures")
    return 1 if failures else 0


if __name__ == "__main__":
    sys.exit(main())
