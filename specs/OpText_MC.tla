------------------------------ MODULE OpText_MC ------------------------------
EXTENDS OpText, Json, IOUtils, SequencesExt
AllTokens == {"p", "n_", "sp", "hs", "eqs", "uni", "sq", "en", "eb", "eq_", "ue", "tb", "us"}
Fixed == {}
Historical == {"splitlines", "no_guard"}
Seeded == {"guard_ignores_escaped_backslash"}
LitSeq == SetToSeq(Literals)
ASSUME IOEnv.OUT_FILE = "" \/ JsonSerialize(IOEnv.OUT_FILE, LitSeq)
=============================================================================
