---- MODULE T ----
EXTENDS Naturals, Sequences, FiniteSets, Json, TLC, IOUtils, SequencesExt
Alphabet == {"a","B","1","_"}
RECURSIVE Strs(_)
Strs(n) == IF n = 0 THEN {<<>>} ELSE LET S == Strs(n-1) IN S \cup {Append(s, c) : s \in {t \in S : Len(t) = n-1}, c \in Alphabet}
Cases == {s \in Strs(3) : Len(s) > 0 /\ s[1] # "1"}
Predict(s) == [in |-> s, n |-> Len(s)]
ASSUME JsonSerialize(IOEnv.OUT_FILE, [i \in 1..Cardinality(Cases) |-> Predict(SetToSeq(Cases)[i])]) 
VARIABLE x
Init == x = 0
Next == x' = x
====
