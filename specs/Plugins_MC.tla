----------------------------- MODULE Plugins_MC -----------------------------
EXTENDS Plugins, Json, IOUtils
Perms(S) == {p \in [1..Cardinality(S) -> S] : \A i, j \in 1..Cardinality(S) : i # j => p[i] # p[j]}
ListsUpTo(n) == {<<>>} \cup UNION {Perms(S) : S \in {X \in SUBSET Known : Cardinality(X) \in 1..n}}
Lists2 == ListsUpTo(2)
Lists3 == ListsUpTo(3)
ListsAll == ListsUpTo(7)
AllKinds == {"one_field", "many_fields", "union", "fragment", "scalar", "arguments", "subscription", "typename_and_field", "only_typename",
             "root_fragment_two_fields", "string_literals", "required_arguments", "optional_arguments", "custom_scalar_result", "custom_scalar_list_result"}
NoDev == {}
Seeded == {"ops_module_only_with_init"}
PL == IF IOEnv.LISTS = "3" THEN Lists3 ELSE Lists2
ListSeq == SetToSeq(PL)
ASSUME IOEnv.OUT_FILE = "" \/ JsonSerialize(IOEnv.OUT_FILE, ListSeq)
=============================================================================
