---------------------------- MODULE GenConfig_Trace ----------------------------
(* Trace validation for GenConfig: one real run per trace:                                                              *)
(*   case(cfg, ops)   generate(outcome)   [import(loads)   inspect(all_exact, report_exact)]                             *)
EXTENDS GenConfig_MC
Traces == JsonDeserialize(IOEnv.TRACE_FILE)
N == Len(Traces)
ASSUME \A t \in 1..N : TLCSet(t, 0)
VARIABLES tid, l
tvars == <<vars, tid, l>>
Ev == Traces[tid][l]
Has == l <= Len(Traces[tid])
Take == l' = l + 1 /\ tid' = tid
TraceInit == /\ tid \in 1..N /\ l = 2 /\ cfg = ToSet(Traces[tid][1].cfg) /\ ops = Traces[tid][1].ops /\ stage = "start" /\ outcome = "-"
             /\ loads = FALSE /\ allExact = FALSE /\ reportExact = FALSE
Matches(o, e) == o = e \/ (o = "CodeGenException" /\ e \in {"ParsingError", "InvalidOperationForSchema", "NotSupported"})
T_Generate == Has /\ Ev.e = "generate" /\ Take /\ Generate /\ Matches(outcome', Ev.outcome)
\* where a finding is open the run may load or not (it depends on whether the operation set happens to use everything)
T_Import == Has /\ Ev.e = "import" /\ Take /\ Import /\ (loads' = Ev.loads \/ KnownBroken(cfg, ops))
T_Inspect == Has /\ Ev.e = "inspect" /\ Take /\ Inspect /\ (allExact' = Ev.all_exact \/ KnownBroken(cfg, ops)) /\ reportExact' = Ev.report_exact
TraceNext == T_Generate \/ T_Import \/ T_Inspect
TraceSpec == TraceInit /\ [][TraceNext]_tvars
Reached == TLCSet(tid, IF l > TLCGet(tid) THEN l ELSE TLCGet(tid))
Accepted ==
  LET bad == {t \in 1..N : TLCGet(t) # Len(Traces[t]) + 1} IN
  /\ \A t \in bad : PrintT(<<"REJECTED", t, TLCGet(t)>>)
  /\ bad = {}
=============================================================================
