from gen import *
import asyncio, httpx, json
schema = '''
scalar DT
input I { d: DT, ds: [DT!] }
type Query { f(d: DT, ds: [DT!], i: I, query: String, self: Int, kwargs: Int, gql: Int): DT  g(data: Int, response: Int, variables: Int, _query: Int): [DT] }
'''
scalars = '''
[tool.ariadne-codegen.scalars.DT]
type = ".sc.DT"
parse = ".sc.parse_dt"
serialize = ".sc.ser_dt"
'''
sc = '''
LOG = []
class DT:
    def __init__(self, v): self.v = v
    def __repr__(self): return f"DT({self.v!r})"
def parse_dt(x):
    LOG.append(("parse", x)); return DT(x)
def ser_dt(x):
    LOG.append(("ser", x)); return x.v if isinstance(x, DT) else "BAD:" + repr(x)
'''
q = '''
query A($d: DT, $ds: [DT!], $i: I) { f(d: $d, ds: $ds, i: $i) g }
'''
d, n, r = generate(schema, q, extra='files_to_include=["sc.py"]', scalars=scalars, files={"sc.py": sc}); show(r)
m = load(d, n)
src=(d/n/"client.py").read_text(); print(src[src.find("async def a"):])
scm = importlib.import_module(n + ".sc")
sent = []
def handler(request):
    sent.append(json.loads(request.content)); return httpx.Response(200, json={"data": {"f": "x", "g": ["a", None]}})
async def go(**kw):
    c = m.Client(url="http://x", http_client=httpx.AsyncClient(transport=httpx.MockTransport(handler)))
    scm.LOG.clear()
    try:
        res = await c.a(**kw); print("res", res, "| sent vars", sent[-1]["variables"], "| LOG", scm.LOG)
    except Exception as e: print("FAIL", type(e).__name__, str(e)[:200], scm.LOG)
asyncio.run(go())
asyncio.run(go(d=None))
asyncio.run(go(d=scm.DT("1"), ds=[scm.DT("2"), scm.DT("3")], i=m.I(d=scm.DT("4"), ds=[scm.DT("5")])))

print("=== name clashes")
for q in ['query B($query: String) { f(query: $query) }', 'query B($self: Int) { f(self: $self) }', 'query B($kwargs: Int) { f(kwargs: $kwargs) }', 'query B($gql: Int) { f(gql: $gql) }',
          'query B($data: Int, $response: Int, $variables: Int) { g(data: $data, response: $response, variables: $variables) }',
          'query B($query: String, $_query: Int) { f(query: $query) g(_query: $_query) }',
          'query B($fooBar: Int, $foo_bar: Int) { g(data: $fooBar, response: $foo_bar) }',
          'query B { fooBar: g foo_bar: g }']:
    d, n, r = generate(schema, q, scalars=scalars, extra='files_to_include=["sc.py"]', files={"sc.py": sc})
    if r.exception: print(q, "-> GEN EXC", type(r.exception).__name__, str(r.exception)[:100]); continue
    try:
        m = load(d, n); print(q, "-> loads")
        sent.clear()
        async def go2():
            c = m.Client(url="http://x", http_client=httpx.AsyncClient(transport=httpx.MockTransport(handler)))
            import inspect
            params = [p for p in inspect.signature(c.b).parameters if p != "kwargs"]
            try:
                res = await c.b(**{p: 1 for p in params}); print("   sent", sent[-1]["variables"], "res", res)
            except Exception as e: print("   CALL FAIL", type(e).__name__, str(e)[:150])
        asyncio.run(go2())
    except Exception as e: print(q, "-> LOAD FAIL", type(e).__name__, str(e)[:150])
