SPECIFICATION TraceSpec
CONSTANT Statuses <- TraceStatuses
INVARIANT OutcomeIsDocumented
INVARIANT ExactlyOne
INVARIANT NoDataWhenErrors
INVARIANT OnlyDocumentedKinds
INVARIANT StatusFirst
PROPERTY OutcomeStable
CONSTRAINT Reached
POSTCONDITION Accepted
CHECK_DEADLOCK FALSE
