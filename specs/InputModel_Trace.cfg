SPECIFICATION TraceSpec
CONSTANTS DefaultKinds <- TDefaults
 NameClasses <- TNames
 Deviations <- KnownDev
INVARIANT AcceptsCanonical
INVARIANT RejectsMissingRequired
INVARIANT DefaultReadsBackK
INVARIANT ServerSeesDefault
INVARIANT ServerSeesValue
CONSTRAINT Reached
POSTCONDITION Accepted
CHECK_DEADLOCK FALSE
