"""Run ONE ariadne-codegen generation in this (fresh) interpreter.

usage: python -m harness.drive_gen <jobdir> [client|graphqlschema] [--audit] [--config FILE]
The job dir holds pyproject.toml (or the file named by --config) and the inputs it refers to.
Writes <jobdir>/result.json: outcome class, message, stdout, (audit) file-system events.
"""
import json
import os
import sys
import traceback


def install_probe(events):
    """Harness-side observation of the generator's phases and accumulators (no source change): wraps
    PackageGenerator.add_operation and the _generate_* phases and logs the accumulators AFTER each step.
    Anything that cannot be observed (renamed attribute) is logged as absent, never guessed."""
    from ariadne_codegen.client_generators import package as pkgmod
    PG = pkgmod.PackageGenerator

    def snap(self):
        out = {}
        for attr, key in (("_unpacked_fragments", "unpacked"), ("_fragments_used_as_mixins", "mixins"),
                          ("_used_enums", "used_enums"), ("_generated_files", "files")):
            if hasattr(self, attr):
                out[key] = sorted(set(getattr(self, attr)))
        try:
            out["used_inputs"] = sorted(set(self.client_generator.arguments_generator.get_used_inputs()))
            out["arg_enums"] = sorted(set(self.client_generator.arguments_generator.get_used_enums()))
        except Exception:  # noqa
            pass
        return out

    def wrap(name, kind):
        orig = getattr(PG, name, None)
        if orig is None:
            return

        def w(self, *a, **k):
            ev = {"e": kind, "name": name}
            if kind == "add_operation" and a:
                try:
                    ev["op"] = a[0].name.value
                except Exception:  # noqa
                    pass
            try:
                return orig(self, *a, **k)
            except BaseException as ex:
                ev["raised"] = type(ex).__name__
                raise
            finally:
                ev.update(snap(self))
                events.append(ev)
        setattr(PG, name, w)

    wrap("add_operation", "add_operation")
    for ph in ("_include_exceptions", "_validate_unique_file_names", "_generate_input_types", "_generate_result_types",
               "_generate_fragments", "_copy_files", "_generate_custom_fields_typing", "_generate_custom_fields",
               "_generate_custom_queries", "_generate_custom_mutations", "_generate_client", "_generate_enums",
               "_generate_init"):
        wrap(ph, "phase")


def install_listing(mode):
    """The order in which a directory lists its entries is a property of the file system (creation order on tmpfs, name
    hash on ext4, ...), not of the input.  This harness-side shim makes it an explicit environment factor: os.scandir and
    os.listdir (what pathlib's glob / iterdir and os.walk are built on) return their entries in the chosen permutation."""
    real_scandir, real_listdir = os.scandir, os.listdir

    def permute(items, key):
        items = sorted(items, key=key)
        if mode == "reverse":
            return items[::-1]
        if mode == "rotate":
            return items[1:] + items[:1]
        if mode == "swapcase":          # byte order of the names with upper and lower case exchanged
            return sorted(items, key=lambda x: key(x).swapcase())
        return items

    class _Scan:
        def __init__(self, path):
            with real_scandir(path) as it:
                self._items = permute(list(it), lambda e: e.name if isinstance(e.name, str) else os.fsdecode(e.name))
            self._iter = iter(self._items)

        def __iter__(self):
            return self

        def __next__(self):
            return next(self._iter)

        def __enter__(self):
            return self

        def __exit__(self, *a):
            return False

        def close(self):
            pass

    def scandir(path="."):
        return _Scan(path)

    def listdir(path="."):
        return permute(real_listdir(path), lambda n: n if isinstance(n, str) else os.fsdecode(n))
    os.scandir, os.listdir = scandir, listdir


def main():
    jobdir = os.path.abspath(sys.argv[1])
    strategy = "client"
    audit = False
    probe = False
    config = None
    args = sys.argv[2:]
    i = 0
    while i < len(args):
        a = args[i]
        if a == "--audit":
            audit = True
        elif a == "--probe":
            probe = True
        elif a == "--config":
            config = args[i + 1]
            i += 1
        else:
            strategy = a
        i += 1
    os.chdir(jobdir)
    events = []
    if audit:
        def hook(event, a):
            try:
                if event == "open":
                    path, mode, _ = a
                    if isinstance(path, (str, bytes, os.PathLike)) and mode and any(c in str(mode) for c in "wax+"):
                        p = os.path.abspath(os.fsdecode(path))
                        if p.startswith(jobdir):
                            events.append(["write", os.path.relpath(p, jobdir)])
                elif event in ("os.mkdir", "os.rename", "os.remove", "os.rmdir", "shutil.rmtree"):
                    p = os.path.abspath(os.fsdecode(a[0]))
                    if p.startswith(jobdir):
                        events.append([event.split(".")[-1], os.path.relpath(p, jobdir)])
            except Exception:  # never disturb the run
                pass
        sys.addaudithook(hook)
    if probe:
        install_probe(events)
    if os.environ.get("VERIF_LISTING"):
        install_listing(os.environ["VERIF_LISTING"])
    if os.environ.get("VERIF_PROBE_HTTPX"):
        import httpx
        _real_post = httpx.post

        def _post(url, *a, **k):
            events.append({"e": "httpx.post", "url": str(url), "headers": dict(k.get("headers") or {}), "verify": k.get("verify", "@default"),
                           "json_keys": sorted((k.get("json") or {}).keys())})
            return _real_post(url, *a, **k)
        httpx.post = _post
    from click.testing import CliRunner
    from ariadne_codegen.main import main as cli
    cli_args = []
    if config:
        cli_args += ["--config", config]
    cli_args.append(strategy)
    r = CliRunner().invoke(cli, cli_args, catch_exceptions=True)
    res = {"exit_code": r.exit_code, "output": r.output[-4000:], "exc_class": None, "exc_msg": None,
           "exc_module": None, "tb": None, "events": events}
    if r.exception is not None and not isinstance(r.exception, SystemExit):
        ex = r.exception
        res["exc_class"] = type(ex).__name__
        res["exc_module"] = type(ex).__module__
        res["exc_mro"] = [c.__name__ for c in type(ex).__mro__]
        res["exc_msg"] = str(ex)[:2000]
        res["tb"] = "".join(traceback.format_exception(type(ex), ex, ex.__traceback__, limit=-6))[-3000:]
    elif isinstance(r.exception, SystemExit) and r.exit_code != 0:
        res["exc_class"] = "SystemExit"
        res["exc_msg"] = r.output[-2000:]
    with open(os.path.join(jobdir, "result.json"), "w") as f:
        json.dump(res, f)


if __name__ == "__main__":
    main()
