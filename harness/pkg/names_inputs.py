"""In-package driver: an input object whose FIELDS carry awkward names (leading underscores, camelCase, keywords,
pydantic attribute names); built by the GraphQL names (populate_by_name), every field given must arrive at the resolver
under its GraphQL name with the caller's value, and a model without a required field must be refused."""
import json

import httpx
from graphql import build_schema, graphql_sync

from .util import load_payload, emit, import_pkg


def main():
    P = load_payload()
    pkg = import_pkg(P["package"])
    it = import_pkg(P["package"] + ".input_types")
    schema = build_schema(P["sdl"])
    seen = {}

    def resolver(src, info, **kw):
        seen["kw"] = kw
        return True

    def handler(request):
        body = json.loads(request.content)
        seen["body"] = body
        res = graphql_sync(schema, body["query"], variable_values=body.get("variables") or {}, field_resolver=resolver)
        return httpx.Response(200, json={"data": res.data, **({"errors": [{"message": str(e)} for e in res.errors]} if res.errors else {})})
    client = pkg.Client(url="http://x", http_client=httpx.Client(transport=httpx.MockTransport(handler)))
    out = {"problems": []}
    names = P["names"]
    full = {n: 100 + i for i, n in enumerate(names)}
    full[P["required"]] = "rid"
    cases = [("all_fields", full), ("required_only", {P["required"]: "rid"}),
             ("some_none", dict({P["required"]: "rid"}, **{n: None for n in names[:2]}))]
    for label, vals in cases:
        seen.clear()
        try:
            model = it.W.model_validate(vals)
            client.q(w=model)
        except Exception as ex:  # noqa
            out["problems"].append(f"{label}: call_failed:{type(ex).__name__}: {str(ex)[:200]}")
            continue
        got = (seen.get("kw") or {}).get("w")
        sent = ((seen.get("body") or {}).get("variables") or {}).get("w")
        if sent != vals:
            out["problems"].append(f"{label}: payload {json.dumps(sent)} differs from the caller's {json.dumps(vals)}")
        elif got != vals:
            out["problems"].append(f"{label}: resolver received {json.dumps(got)}")
    try:
        it.W.model_validate({names[0]: 1})
        out["problems"].append("missing_required_field_accepted")
    except Exception:  # noqa
        pass
    emit(out)


if __name__ == "__main__":
    main()
