------------------------------ MODULE Telemetry ------------------------------
(* Beyond the listed properties: the span structure the OpenTelemetry base clients emit for a subscription              *)
(* (async_base_client_open_telemetry._execute_ws_with_telemetry and the *_with_telemetry helpers).                        *)
(* The protocol session is WsProtocol, unchanged; this module adds the tracer as a second observer of the same actions:   *)
(* one root span per call, one child span per protocol step, each child closed before the next one is opened, an          *)
(* exception recorded (by leaving the `with` block) on exactly the span in which it was raised and on the root.           *)
EXTENDS WsProtocol

VARIABLES root,      \* "none" | "open" | "closed" | "closed_exc"   (the ws root span)
          spans      \* finished child spans, in order: [kind, keys, exc]
tvars == <<vars, root, spans>>

Span(kind, keys, exc) == [kind |-> kind, keys |-> keys, exc |-> exc]
NoExc == "-"
\* attribute keys set on each kind of child span
InitKeys == {"component", "type"} \cup (IF cfg.payload THEN {"payload"} ELSE {})
\* `if variables:` -- a non-empty dict (even one holding only UNSET values) adds the attribute
SubKeys == {"component", "id", "type", "query", "operationName"} \cup (IF cfg.vars \in {"filtered", "allunset"} THEN {"variables"} ELSE {})
\* the type attribute is set right after decoding, before any validation: a frame that is not JSON never gets it
RecvKeys(kind) == {"component"} \cup (IF kind = "nonjson" THEN {} ELSE {"type"})
ExcOf(res) == IF res \in {"invalid_message", "multi_error"} THEN res ELSE NoExc
RootAfter(ph, res) == IF ph = "ended" THEN (IF ExcOf(res) = NoExc THEN "closed" ELSE "closed_exc") ELSE "open"

TInit == Init /\ root = "none" /\ spans = <<>>
\* with tracer.start_as_current_span(ws_root_span_name): ... async with ws_connect(...)
TConnect == Connect /\ root' = "open" /\ spans' = spans
TSendInit == SendInit /\ spans' = Append(spans, Span("connection init", InitKeys, NoExc)) /\ root' = root
TRecvFirst == RecvFirst /\ spans' = Append(spans, Span("received message", RecvKeys(Cur), ExcOf(result')))
                        /\ root' = RootAfter(phase', result')
TSendSubscribe == SendSubscribe /\ spans' = Append(spans, Span("subscribe", SubKeys, NoExc)) /\ root' = root
TRecv == Recv /\ spans' = Append(spans, Span("received message", RecvKeys(Cur), ExcOf(result')))
              /\ root' = RootAfter(phase', result')
\* the socket iteration ends: no message, no child span; the root span closes
TServerClosed == ServerClosed /\ spans' = spans /\ root' = RootAfter(phase', result')
TNext == TConnect \/ TSendInit \/ TRecvFirst \/ TSendSubscribe \/ TRecv \/ TServerClosed
TSpec == TInit /\ [][TNext]_tvars

\* ---- properties of the span structure ---------------------------------------------------------------------------
Kinds_(s) == [i \in 1..Len(s) |-> s[i].kind]
CountKind(k) == Cardinality({i \in 1..Len(spans) : spans[i].kind = k})
\* the root span lives exactly as long as the call
RootLifecycle == /\ (root = "none") <=> (phase = "idle")
                 /\ (root = "open") <=> (phase \notin {"idle", "ended"})
                 /\ (root = "closed_exc") <=> (phase = "ended" /\ ExcOf(result) # NoExc)
\* one "received message" span per frame taken from the socket, one span per frame sent except pongs
OneSpanPerFrame == /\ CountKind("received message") = pos
                   /\ CountKind("connection init") = Cardinality({i \in 1..Len(sent) : IsInit(sent[i])})
                   /\ CountKind("subscribe") = Cardinality({i \in 1..Len(sent) : IsSub(sent[i])})
\* init, first message, subscribe, then only messages
SpanOrder == \A i \in 1..Len(spans) :
               spans[i].kind = (CASE i = 1 -> "connection init" [] i = 3 -> "subscribe" [] OTHER -> "received message")
\* an exception is recorded on the last child span only, and exactly when the call ends with that exception
ExcOnlyWhereRaised == /\ \A i \in 1..(Len(spans) - 1) : spans[i].exc = NoExc
                      /\ (spans # <<>> /\ spans[Len(spans)].exc # NoExc) => (phase = "ended" /\ spans[Len(spans)].exc = result)
                      /\ (phase = "ended" /\ ExcOf(result) # NoExc) => (spans # <<>> /\ spans[Len(spans)].exc = result)
=============================================================================
