from gen import *
from graphql import build_schema, print_schema
schema = '''
"""Schema desc"""
schema { query: RootQ mutation: M }
directive @rep(x: Int = 3, o: In = {a: 1, c: RED}) repeatable on FIELD_DEFINITION | OBJECT
scalar Date @specifiedBy(url: "https://x")
"multi\\nline"
enum Color { RED "g" GREEN @deprecated(reason: "no") }
interface Node { id: ID! }
interface Res implements Node { id: ID! url(big: Float = 1e300, s: String = "q\\"uote'"): String }
input In { a: Int = 5 c: Color = RED l: [Int!] = [1, 2] n: In = null }
input In2 { o: In = {a: 2, l: []} }
type A implements Res & Node { id: ID! url(big: Float = 1e300, s: String = "q\\"uote'"): String @deprecated f(i: In = {a: 7}): [Color!]! }
union U = A
type RootQ { u: U n(ids: [ID!] = ["a"]): Node }
type M { m(d: Date, i2: In2): Boolean }
'''
d, n, r = generate(schema, None, strategy="graphqlschema", extra='target_file_path="out_schema.py"'); show(r)
src = (d/"out_schema.py").read_text()
ns = {}
try:
    exec(compile(src, "out_schema.py", "exec"), ns)
    a = print_schema(ns["schema"]); b = print_schema(build_schema(schema))
    print("EQUAL" if a == b else "DIFF")
    if a != b:
        import difflib; print("\n".join(difflib.unified_diff(b.splitlines(), a.splitlines(), lineterm="", n=0)))
except Exception as e:
    print("EXEC FAIL", type(e).__name__, e)
