---------------------------- MODULE Telemetry_MC ----------------------------
EXTENDS Telemetry, TLCExt, SequencesExt
AllKinds == JudgedKinds \cup ObservedOnlyKinds
BothPayloads == BOOLEAN
AllVarModes == {"none", "empty", "filtered", "allunset"}
SampleOneIn == 1
Sample40 == 40
Sample400 == 400
\* printed once per terminal state: the case and the predicted spans (tuples only)
Export == (phase = "ended" /\ RandomElement(1..SampleOneIn) = 1) =>
  PrintT(<<"S", inbox, cfg.payload, cfg.vars,
           [i \in 1..Len(spans) |-> <<spans[i].kind, SetToSeq(spans[i].keys), spans[i].exc>>], root>>)
=============================================================================
