"""Catalogue of single-constraint violations for C17 (and the valid controls).

Each entry: id, strategy, how to plant it in an otherwise valid project, the phase in which the run has to stop and the
documented ariadne-codegen exception."""
from __future__ import annotations

SCHEMA = '''
scalar Date
enum Color { RED GREEN }
input Filter { name: String color: Color }
interface Node { id: ID! }
type Item implements Node { id: ID! name: String color: Color when: Date }
type Query { item(id: ID!): Item items(filter: Filter): [Item!]! }
type Mutation { rename(id: ID!, name: String!): Item }
type Subscription { ticks: Int! }
'''
QUERIES = '''
query GetItem($id: ID!) { item(id: $id) { id name color } }
query ListItems($filter: Filter) { items(filter: $filter) { ...ItemParts } }
fragment ItemParts on Item { id when }
'''

BASE_CLIENT_OPTS = {"schema_path": "schema.graphql", "queries_path": "queries.graphql", "target_package_name": "gclient",
                    "include_comments": "none"}
BASE_SCHEMA_OPTS = {"schema_path": "schema.graphql", "target_file_path": "out_schema.py"}


class Case:
    def __init__(self, id, phase, documented, *, strategy="client", opts=None, drop=(), files=None, schema=None, queries=None,
                 raw_config=None, config_name=None, no_config=False, env=None, note="", ctx=""):
        self.id, self.phase, self.documented, self.strategy = id, phase, documented, strategy
        self.ctx = ctx  # option context the violation is planted in ("" = the base options); the violation id stays the same
        self.key = id + ctx + "@" + strategy
        self.opts, self.drop, self.files = opts or {}, set(drop), files or {}
        self.schema, self.queries, self.raw_config = schema, queries, raw_config
        self.config_name, self.no_config, self.env, self.note = config_name, no_config, env or {}, note


def _id_cases():
    out = []
    bad_names = [("digit", "1abc"), ("dash", "my-pkg"), ("keyword", "class"), ("empty_like", "a b")]
    for opt in ("target_package_name", "client_name", "client_file_name", "enums_module_name", "input_types_module_name",
                "fragments_module_name"):
        for tag, val in bad_names:
            out.append(Case(f"cfg:{opt}:{tag}", "settings", "InvalidConfiguration", opts={opt: val}))
    for opt in ("schema_variable_name", "type_map_variable_name"):
        for tag, val in bad_names[:3]:
            out.append(Case(f"cfg:{opt}:{tag}", "settings", "InvalidConfiguration", strategy="graphqlschema", opts={opt: val}))
    return out


INVALID_OPS = {
    "unknown_field": "query Q { item(id: \"1\") { nope } }",
    "unknown_argument": "query Q { item(id: \"1\", zzz: 1) { id } }",
    "missing_required_argument": "query Q { item { id } }",
    "wrong_argument_literal_type": "query Q { item(id: {a: 1}) { id } }",
    "unknown_variable_type": "query Q($x: Nope) { item(id: \"1\") { id } }",
    "unused_variable": "query Q($x: ID) { item(id: \"1\") { id } }",
    "undefined_variable": "query Q { item(id: $nope) { id } }",
    "variable_type_mismatch": "query Q($x: Int) { item(id: \"1\") { id } items(filter: $x) { id } }",
    "variable_non_input_type": "query Q($x: Item) { item(id: \"1\") { id } }",
    "duplicate_operation_name": "query Q { item(id: \"1\") { id } }\nquery Q { item(id: \"2\") { id } }",
    "fragment_cycle": "query Q { item(id: \"1\") { ...A } }\nfragment A on Item { ...B }\nfragment B on Item { ...A }",
    "unknown_fragment": "query Q { item(id: \"1\") { ...Nope } }",
    "fragment_on_scalar": "query Q { item(id: \"1\") { ...A } }\nfragment A on Date { x }",
    "leaf_with_selection": "query Q { item(id: \"1\") { id { x } } }",
    "composite_without_selection": "query Q { item(id: \"1\") }",
    "duplicate_variable": "query Q($x: ID!, $x: ID!) { item(id: $x) { id } }",
    "duplicate_argument": "query Q { item(id: \"1\", id: \"2\") { id } }",
    "unknown_directive": "query Q { item(id: \"1\") { id @nope } }",
    "misplaced_directive": "query Q @skip(if: true) { item(id: \"1\") { id } }",
    "duplicate_fragment_name": "query Q { item(id: \"1\") { ...A } }\nfragment A on Item { id }\nfragment A on Item { name }",
    "impossible_spread": "query Q { item(id: \"1\") { ...A } }\nfragment A on Query { __typename }",
    "anonymous_with_named": "{ item(id: \"1\") { id } }\nquery Q { item(id: \"2\") { id } }",
    "subscription_two_roots": "subscription S { ticks other: ticks }",
    "unknown_input_field": "query Q { items(filter: {nope: 1}) { id } }",
    "duplicate_input_field": "query Q { items(filter: {name: \"a\", name: \"b\"}) { id } }",
    "conflicting_fields": "query Q { item(id: \"1\") { x: id x: name } }",
    "unknown_type_condition": "query Q { item(id: \"1\") { ... on Nope { id } } }",
    "bad_enum_literal": "query Q { items(filter: {color: BLUE}) { id } }",
    "bad_default_value": "query Q($x: ID! = {a: 1}) { item(id: $x) { id } }",
    "executable_only": "type Extra { a: Int }\nquery Q { item(id: \"1\") { id } }",
}

INVALID_SCHEMAS = {
    "no_query_root": "type Mutation { a: Int }",
    "query_root_not_object": "input Query { a: Int }",
    "object_without_fields": "type Query { a: Empty }\ntype Empty",
    "reserved_field_name": "type Query { __a: Int }",
    "interface_field_missing": "interface N { id: ID! }\ntype T implements N { other: Int }\ntype Query { t: T }",
    "interface_field_wrong_type": "interface N { id: ID! }\ntype T implements N { id: Int }\ntype Query { t: T }",
    "union_without_members": "union U\ntype Query { u: U }",
    "union_non_object_member": "scalar S\nunion U = S\ntype Query { u: U }",
    "enum_without_values": "enum E\ntype Query { e: E }",
    "input_without_fields": "input I\ntype Query { f(i: I): Int }",
    "input_circular_non_null": "input I { i: I! }\ntype Query { f(i: I): Int }",
    "input_as_output": "input I { a: Int }\ntype Query { i: I }",
    "object_as_argument": "type T { a: Int }\ntype Query { f(t: T): Int }",
    "unknown_type": "type Query { a: Nope }",
    "duplicate_type": "type Query { a: Int }\ntype Query { b: Int }",
    "reserved_directive_name": "directive @__d on FIELD\ntype Query { a: Int }",
    "interface_not_implemented_transitively": "interface J { id: ID! }\ninterface I implements J { id: ID! }\ntype T implements I { id: ID! }\ntype Query { t: T }",
    "required_deprecated_argument": "type Query { f(a: Int! @deprecated): Int }",
    "duplicate_field": "type Query { a: Int a: String }",
}


def catalogue():
    C = [Case("none:client", "-", None), Case("none:graphqlschema", "-", None, strategy="graphqlschema"),
         Case("none:unknown_keys", "-", None, opts={"frobnicate": 1, "no_such_option": "x"}),
         Case("none:graphqlschema_gql", "-", None, strategy="graphqlschema", opts={"target_file_path": "out.gql"}),
         Case("none:old_section", "-", None, raw_config="OLD_SECTION"),
         Case("none:custom_config_file", "-", None, config_name="custom.toml")]
    C += [
        Case("cfg:no_config_file", "config", "ConfigFileNotFound", no_config=True, config_name="missing.toml"),
        Case("cfg:no_section", "section", "MissingConfiguration", raw_config="[tool.other]\nx = 1\n"),
        Case("cfg:no_schema_source", "settings", "InvalidConfiguration", drop={"schema_path"}),
        Case("cfg:no_schema_source", "settings", "InvalidConfiguration", drop={"schema_path"}, strategy="graphqlschema"),
        Case("cfg:schema_path_missing", "settings", "InvalidConfiguration", opts={"schema_path": "nope.graphql"}),
        Case("cfg:schema_path_missing", "settings", "InvalidConfiguration", opts={"schema_path": "nope.graphql"}, strategy="graphqlschema"),
        # "~" is not expanded by the loaders: a path that exists only under $HOME is a missing path (HOME = a directory of the job)
        Case("cfg:tilde_queries_path", "settings", "InvalidConfiguration", opts={"queries_path": "~/queries.graphql"},
             files={"fakehome/queries.graphql": QUERIES}, env={"HOME": "@job/fakehome"}),
        Case("cfg:tilde_schema_path", "settings", "InvalidConfiguration", opts={"schema_path": "~/schema.graphql"},
             files={"fakehome/schema.graphql": SCHEMA}, env={"HOME": "@job/fakehome"}),
        Case("cfg:tilde_schema_path", "settings", "InvalidConfiguration", opts={"schema_path": "~/schema.graphql"}, strategy="graphqlschema",
             files={"fakehome/schema.graphql": SCHEMA}, env={"HOME": "@job/fakehome"}),
        Case("cfg:tilde_files_to_include", "settings", "InvalidConfiguration", opts={"files_to_include": ["~/extra_helpers.py"]},
             files={"fakehome/extra_helpers.py": "X = 1\n"}, env={"HOME": "@job/fakehome"}),
        Case("cfg:base_client_name_without_file", "settings", "InvalidConfiguration", opts={"base_client_name": "MyBase"}),
        Case("cfg:base_client_file_without_name", "settings", "InvalidConfiguration", opts={"base_client_file_path": "my_base.py"},
             files={"my_base.py": "class MyBase:\n    pass\n"}),
        Case("cfg:no_queries_path", "settings", "MissingConfiguration", drop={"queries_path"}),
        Case("cfg:queries_path_missing", "settings", "InvalidConfiguration", opts={"queries_path": "nope.graphql"}),
        Case("cfg:target_package_path_not_dir", "settings", "InvalidConfiguration", opts={"target_package_path": "schema.graphql"}),
        Case("cfg:target_package_path_missing", "settings", "InvalidConfiguration", opts={"target_package_path": "no/such/dir"}),
        Case("cfg:base_client_name_invalid", "settings", "InvalidConfiguration",
             opts={"base_client_name": "1Bad", "base_client_file_path": "my_base.py"},
             files={"my_base.py": "class MyBase:\n    pass\n"}),
        Case("cfg:base_client_file_missing", "settings", "InvalidConfiguration",
             opts={"base_client_name": "MyBase", "base_client_file_path": "nope_base.py"}),
        Case("cfg:base_client_file_is_dir", "settings", "InvalidConfiguration",
             opts={"base_client_name": "MyBase", "base_client_file_path": "adir"}, files={"adir/x.txt": "x"}),
        Case("cfg:base_client_class_missing", "settings", "InvalidConfiguration",
             opts={"base_client_name": "MyBase", "base_client_file_path": "my_base.py"},
             files={"my_base.py": "class Other:\n    pass\n"}),
        Case("cfg:include_comments_unknown", "settings", "InvalidConfiguration", opts={"include_comments": "sometimes"}),
        Case("cfg:scalar_without_type", "settings", "MissingConfiguration", raw_config="SCALAR_NO_TYPE"),
        Case("cfg:header_env_missing", "settings", "InvalidConfiguration",
             opts={"remote_schema_headers": {"Authorization": "$VERIF_NO_SUCH_ENV_VAR"}}),
        Case("cfg:header_env_missing", "settings", "InvalidConfiguration", strategy="graphqlschema",
             opts={"remote_schema_headers": {"Authorization": "$VERIF_NO_SUCH_ENV_VAR"}}),
        Case("cfg:files_to_include_missing", "settings", "InvalidConfiguration", opts={"files_to_include": ["nope.py"]}),
        Case("cfg:files_to_include_is_dir", "settings", "InvalidConfiguration", opts={"files_to_include": ["adir"]}, files={"adir/x.txt": "x"}),
        Case("cfg:target_file_no_suffix", "settings", "InvalidConfiguration", strategy="graphqlschema", opts={"target_file_path": "outschema"}),
        Case("cfg:target_file_bad_type", "settings", "InvalidConfiguration", strategy="graphqlschema", opts={"target_file_path": "out.txt"}),
        Case("cfg:plugin_not_importable", "plugins", "PluginImportError", opts={"plugins": ["no.such.module.Plugin"]}),
        Case("syntax:schema_file", "schema_syntax", "InvalidGraphqlSyntax", schema="type Query { a: Int "),
        Case("syntax:schema_file", "schema_syntax", "InvalidGraphqlSyntax", schema="type Query { a: Int ", strategy="graphqlschema"),
        Case("syntax:schema_dir_one_bad", "schema_syntax", "InvalidGraphqlSyntax",
             schema={"a.graphql": SCHEMA, "b.graphql": "type Broken {"}),
        Case("syntax:schema_dir_completing_pieces", "schema_syntax", "InvalidGraphqlSyntax",
             schema={"a.graphql": SCHEMA + "\ntype Extra { a: Int", "b.graphql": "}\n"}),
        Case("syntax:schema_dir_empty_file", "schema_syntax", "InvalidGraphqlSyntax", schema={"a.graphql": SCHEMA, "b.graphql": "# only a comment\n"}),
        Case("syntax:queries_file", "queries_syntax", "InvalidGraphqlSyntax", queries="query Q { item(id: \"1\") { id }"),
        Case("syntax:queries_dir_completing_pieces", "queries_syntax", "InvalidGraphqlSyntax",
             queries={"a.graphql": "query GetA { item(id: \"1\") { id ", "b.graphql": "} }\nquery GetB { item(id: \"2\") { id } }\n"}),
        Case("op:anonymous", "add_operations", "ParsingError", queries="{ item(id: \"1\") { id } }"),
        Case("op:subscription_sync_client", "add_operations", "NotSupported", opts={"async_client": False},
             queries="subscription S { ticks }"),
        Case("op:mixin_missing_argument", "add_operations", "ParsingError",
             queries="query Q { item(id: \"1\") @mixin(from: \".x\") { id } }"),
        Case("op:mixin_non_string", "queries_valid", "InvalidOperationForSchema",
             queries="query Q { item(id: \"1\") @mixin(from: \".x\", import: 1) { id } }"),
        Case("op:colliding_file_names", "file_names", "ParsingError", queries="query Client { item(id: \"1\") { id } }"),
        Case("op:colliding_with_enums_module", "file_names", "ParsingError", queries="query Enums { item(id: \"1\") { id } }"),
        Case("op:colliding_with_fragments_module", "file_names", "ParsingError",
             queries="query Fragments { item(id: \"1\") { ...P } }\nfragment P on Item { id }"),
    ]
    C += _id_cases()
    for k, q in INVALID_OPS.items():
        C.append(Case(f"invalid_op:{k}", "queries_valid", "InvalidOperationForSchema", queries=q))
    for k, s in INVALID_SCHEMAS.items():
        C.append(Case(f"invalid_schema:{k}", "schema_valid", "CodeGenException", schema=s,
                      queries="query Q { __typename }"))
        C.append(Case(f"invalid_schema:{k}", "schema_valid", "CodeGenException", schema=s, strategy="graphqlschema"))
    C += _contexts(C)
    return C


# Option contexts: every violation of the client strategy must be rejected in the same way whatever unrelated options are set.
# (enable_custom_operations makes queries_path optional -- only *leaving it out* becomes valid; a path that is given and missing,
# or a document that is invalid, is still rejected.)
CONTEXTS = {"+custom_ops": {"enable_custom_operations": True},
            "+sync_no_convert": {"async_client": False, "convert_to_snake_case": False, "include_all_inputs": False,
                                 "include_all_enums": False}}


def _contexts(cases):
    out = []
    for c in cases:
        if c.strategy != "client" or c.raw_config is not None or c.no_config:
            continue
        for ctx, extra in CONTEXTS.items():
            if any(k in c.opts for k in extra) or (ctx == "+sync_no_convert" and not (c.id.startswith("cfg:") or c.id.startswith("none:"))):
                continue
            phase, documented = c.phase, c.documented
            if ctx == "+custom_ops" and c.id == "cfg:no_queries_path":
                phase, documented = "-", None
            n = Case(c.id, phase, documented, strategy=c.strategy, opts={**c.opts, **extra}, drop=c.drop, files=c.files, schema=c.schema,
                     queries=c.queries, config_name=c.config_name, env=c.env, note=c.note, ctx=ctx)
            out.append(n)
    return out
