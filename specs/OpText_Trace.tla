----------------------------- MODULE OpText_Trace -----------------------------
(* Trace validation for OpText: one authored literal and what the generated client finally sends for it:                *)
(*    case(lit)    observed(text, joined)                                                                               *)
(* `text` is the literal recovered from the sent query (tokenised by the harness), `joined` whether the generated        *)
(* source holds one triple-quoted string or adjacent literals.  The pipeline stages are silent steps.                   *)
EXTENDS OpText, Json, IOUtils

Traces == JsonDeserialize(IOEnv.TRACE_FILE)
N == Len(Traces)
ASSUME \A t \in 1..N : TLCSet(t, 0)
TraceTokens == {"p", "n_", "sp", "hs", "eqs", "uni", "sq", "en", "eb", "eq_", "ue", "tb", "us"}
TraceMax == 8
NoDev == {}
VARIABLES tid, l
tvars == <<vars, tid, l>>
Ev == Traces[tid][l]
TraceInit == /\ tid \in 1..N /\ l = 2 /\ lit = Traces[tid][1].lit /\ stage = "printed" /\ text = lit /\ joined = FALSE
T_Silent == Next /\ l' = l /\ tid' = tid
T_Observed == /\ l <= Len(Traces[tid]) /\ Ev.e = "observed" /\ l' = l + 1 /\ tid' = tid
              /\ stage = "evaluated" /\ Ev.text = text /\ (Ev.joined = "unknown" \/ Ev.joined = (IF joined THEN "yes" ELSE "no"))
              /\ UNCHANGED vars
TraceNext == T_Silent \/ T_Observed
TraceSpec == TraceInit /\ [][TraceNext]_tvars
Reached == TLCSet(tid, IF l > TLCGet(tid) THEN l ELSE TLCGet(tid))
Accepted ==
  LET bad == {t \in 1..N : TLCGet(t) # Len(Traces[t]) + 1} IN
  /\ \A t \in bad : PrintT(<<"REJECTED", t, TLCGet(t)>>)
  /\ bad = {}
=============================================================================
