"""In-package driver for C11: variables trees -> real execute() on a generated-copy base client; decode the request."""
import asyncio
import datetime
import io
import json
import random
import threading

import httpx

from .util import load_payload, emit, import_pkg

QUERY = "query Op($v1: X, $v2: X) { f(a: $v1, b: $v2) }"
DT = datetime.datetime(2020, 1, 2, 3, 4, 5)


def gamma(tree, pkg, uploads, memo=None):
    """memo (a dict): equal "D" sub-trees become ONE Python object (aliasing inside the caller's variables)"""
    tag = tree[0]
    if memo is not None and tag == "D":
        key = json.dumps(tree)
        if key not in memo:
            memo[key] = {f"k{i}": gamma(k, pkg, uploads, memo) for i, k in enumerate(tree[1:], start=1)}
        return memo[key]
    if tag == "s":
        return 7
    if tag == "n":
        return None
    if tag == "e":
        return pkg.Color.RED
    if tag == "d":
        return DT
    if tag in ("u1", "u2"):
        return uploads[tag]
    if tag == "m":
        return pkg.InM(k_1=7, k_2=7)
    if tag == "mu":
        return pkg.InU(k_1=uploads["u1"], k_2=7)
    if tag == "unset":
        return uploads["UNSET"]
    if tag == "L":
        return [gamma(k, pkg, uploads, memo) for k in tree[1:]]
    if tag == "D":
        return {f"k{i}": gamma(k, pkg, uploads) for i, k in enumerate(tree[1:], start=1)}
    if tag == "V":
        return {f"v{i}": gamma(k, pkg, uploads, memo) for i, k in enumerate(tree[1:], start=1) if k[0] != "absent"}
    raise ValueError(tag)


def alpha_py(val, pkg, uploads, top=False):
    """the CALLER's Python object (after the call) -> abstract tree; the inverse of gamma"""
    if val is None:
        return ["n"]
    if val is uploads["UNSET"]:
        return ["unset"]
    for u in ("u1", "u2"):
        if val is uploads[u]:
            return [u]
    if isinstance(val, pkg.Color):
        return ["e"]
    if val == DT:
        return ["d"]
    if isinstance(val, pkg.InM):
        return ["m"] if (val.k_1, val.k_2) == (7, 7) else ["?m"]
    if isinstance(val, pkg.InU):
        return ["mu"] if (val.k_1 is uploads["u1"] and val.k_2 == 7) else ["?mu"]
    if isinstance(val, bool):
        return ["?bool"]
    if val == 7:
        return ["s"]
    if isinstance(val, list):
        return ["L"] + [alpha_py(x, pkg, uploads) for x in val]
    if isinstance(val, dict):
        if top:
            return ["V"] + [alpha_py(val[k], pkg, uploads) if k in val else ["absent"] for k in ("v1", "v2")]
        keys = sorted(val)
        if keys != [f"k{i}" for i in range(1, len(keys) + 1)]:
            return ["?keys:" + ",".join(keys)]
        return ["D"] + [alpha_py(val[k], pkg, uploads) for k in keys]
    return ["?" + repr(val)[:30]]


def alpha(val, top=False):
    """observed JSON value -> abstract tree"""
    if val is None:
        return ["n"]
    if val == 7:
        return ["s"]
    if val == "RED":
        return ["e"]
    if isinstance(val, str) and val.startswith("2020-01-02T03:04:05"):
        return ["d"]
    if isinstance(val, list):
        return ["L"] + [alpha(x) for x in val]
    if isinstance(val, dict):
        if top:
            return ["V"] + [alpha(val[k]) if k in val else ["absent"] for k in ("v1", "v2")]
        keys = sorted(val)
        if keys != [f"k{i}" for i in range(1, len(keys) + 1)]:
            return ["?keys:" + ",".join(keys)]
        return ["D"] + [alpha(val[k]) for k in keys]
    return ["?" + repr(val)[:30]]


def opname_of(ops):
    """the operationName member of the body: "named" (= "Op"), "null" (JSON null), "absent", or what else was sent"""
    if "operationName" not in ops:
        return "absent"
    v = ops["operationName"]
    return "named" if v == "Op" else ("null" if v is None else "other:" + repr(v)[:20])


def parse_multipart(content_type, body):
    b = content_type.split("boundary=")[1].strip().strip('"').encode()
    parts = {}
    for chunk in body.split(b"--" + b):
        chunk = chunk.strip(b"\r\n")
        if not chunk or chunk == b"--":
            continue
        head, _, data = chunk.partition(b"\r\n\r\n")
        h = head.decode("utf-8", "replace")
        name = h.split('name="')[1].split('"')[0]
        fn = h.split('filename="')[1].split('"')[0] if 'filename="' in h else None
        ct = [ln.split(":", 1)[1].strip() for ln in h.split("\r\n") if ln.lower().startswith("content-type:")]
        parts[name] = {"filename": fn, "data": data, "ctype": ct[0] if ct else None}
    return parts


def abstract_request(req: httpx.Request):
    ct = req.headers.get("content-type", "")
    body = req.content
    out = {"method": req.method, "raw_ctype": ct}
    out["extra"] = "caller_headers" if ("x-own" in req.headers or "x-shared" in req.headers) else "none"
    if ct.startswith("multipart/form-data"):
        parts = parse_multipart(ct, body)
        ops = json.loads(parts["operations"]["data"])
        mp = json.loads(parts["map"]["data"])
        out.update(kind="multipart", ctype="multipart/form-data")
        fkeys = sorted((k for k in parts if k not in ("operations", "map")), key=lambda x: int(x) if x.isdigit() else 999)
        files = []
        for k in fkeys:
            p = parts[k]
            which = {b"one": "u1", b"two": "u2"}.get(p["data"], "?")
            ok = (p["filename"], p["ctype"]) == ({"u1": "f1.txt", "u2": "f2.bin"}.get(which), {"u1": "text/plain", "u2": "application/octet-stream"}.get(which))
            files.append(which if ok else which + ":bad_meta")
        out["files"] = files
        out["map"] = [mp.get(k, ["?missing"]) for k in fkeys] if sorted(mp) == sorted(fkeys) else [["?map_keys:" + ",".join(sorted(mp))]]
        out["body_keys"] = sorted(ops)
        out["vars"] = alpha(ops.get("variables"), top=True)
        out["query_ok"] = ops.get("query") == QUERY
        out["opname"] = opname_of(ops)
    else:
        try:
            ops = json.loads(body)
        except Exception:  # noqa
            ops = {}
        out.update(kind="json", ctype=("application/json" if ct == "application/json" else ("caller" if ct == "application/custom+json" else "?" + ct)),
                   files=[], map=[])
        out["body_keys"] = sorted(ops) if isinstance(ops, dict) else ["?"]
        out["vars"] = alpha(ops.get("variables"), top=True) if isinstance(ops, dict) else ["?"]
        out["query_ok"] = isinstance(ops, dict) and ops.get("query") == QUERY
        out["opname"] = opname_of(ops) if isinstance(ops, dict) else "other"
    if ct == "application/custom+json":
        out["ctype"] = "caller"
    out["timeout"] = (req.extensions.get("timeout") or {}).get("read")
    return out


def mk_uploads(pkg, bm):
    return {"u1": bm.Upload(filename="f1.txt", content=io.BytesIO(b"one"), content_type="text/plain"),
            "u2": bm.Upload(filename="f2.bin", content=io.BytesIO(b"two"), content_type="application/octet-stream"),
            "UNSET": bm.UNSET}


def headers_for(mode, shared):
    if mode == "none":
        return {}
    if mode == "own":
        return {"headers": {"X-Own": "1"}}
    if mode == "own_ct":
        return {"headers": {"X-Own": "1", "Content-Type": "application/custom+json"}}
    return {"headers": shared}


def main():
    P = load_payload()
    pkg = import_pkg(P["package"])
    bm = import_pkg(P["package"] + ".base_model")
    is_async = P["async"]
    tracer = P.get("tracer")
    out_single = []
    captured = []

    def handler(request):
        captured.append(request)
        return httpx.Response(200, json={"data": {"f": 1}})

    ckw = {"tracer": tracer} if tracer else {}
    # ---- sequential single calls: every tree
    if is_async:
        loop = asyncio.new_event_loop()
        hc = httpx.AsyncClient(transport=httpx.MockTransport(handler))
    else:
        loop = None
        hc = httpx.Client(transport=httpx.MockTransport(handler))
    client = pkg.Client(url="http://x/graphql", http_client=hc, **ckw)
    for case in P["cases"]:
        ups = mk_uploads(pkg, bm)
        variables = gamma(case["tree"], pkg, ups, {} if case.get("alias") else None)
        del captured[:]
        kw = {}
        if case.get("timeout"):
            kw["timeout"] = 3.5
        rec = {"tree": case["tree"]}
        try:
            if case.get("opname") == "omitted":
                r = client.execute(query=QUERY, variables=variables, **kw)
            elif case.get("opname") == "none":
                r = client.execute(query=QUERY, operation_name=None, variables=variables, **kw)
            else:
                r = client.execute(query=QUERY, operation_name="Op", variables=variables, **kw)
            if is_async:
                r = loop.run_until_complete(r)
            rec["requests"] = len(captured)
            rec["obs"] = abstract_request(captured[0])
            rec["status"] = r.status_code
        except Exception as ex:  # noqa
            rec["error"] = f"{type(ex).__name__}: {ex}"[:300]
        rec["cvars"] = alpha_py(variables, pkg, ups, top=True)
        out_single.append(rec)
    # ---- histories with caller-owned shared objects and interleaved calls
    out_hist = []
    rnd = random.Random(P.get("seed", 0))
    for hcase in P["histories"]:
        shared = {"X-Shared": "1"}
        shared_before = dict(shared)
        calls = hcase["calls"]
        events = []
        lock = threading.Lock()
        ups = mk_uploads(pkg, bm)   # the same Upload objects may be shared by the calls of one history
        var_objs = {}
        for c, call in enumerate(calls, start=1):
            var_objs[c] = var_objs[1] if call.get("reuse") else gamma(call["tree"], pkg, ups)

        def mark(ev):
            with lock:
                events.append(ev)
        if is_async:
            # call identity: separate clients cannot be used (property is about ONE client); use one transport per history and
            # identify calls by their variables instead
            ident = {}

            async def ahandler2(request):
                ob = abstract_request(request)
                key = json.dumps([ob["vars"], ob["files"], ob["map"]]) + "|" + ob["extra"] + "|" + ob["ctype"]
                cands = [c for c in ident.get(key, []) if c not in seen]
                c = cands[0] if cands else 0
                seen.add(c)
                mark({"e": "wire", "c": c, "obs": ob})
                for _ in range(rnd.randint(0, 3)):
                    await asyncio.sleep(0)
                return httpx.Response(200, json={"data": {"f": c}})
            seen = set()

            async def go():
                nonlocal_cl = pkg.Client(url="http://x/graphql", http_client=httpx.AsyncClient(transport=httpx.MockTransport(ahandler2)), **ckw)
                tasks = []
                for c, call in enumerate(calls, start=1):
                    ident.setdefault(call["ident"], []).append(c)

                    async def one2(c=c, call=call):
                        kw = headers_for(call["hdr"], shared)
                        variables = var_objs[c]
                        for _ in range(rnd.randint(0, 2)):
                            await asyncio.sleep(0)
                        r = await nonlocal_cl.execute(query=QUERY, operation_name="Op", variables=variables, **kw)
                        mark({"e": "ret", "c": c, "got": r.json()["data"]["f"], "cvars": alpha_py(variables, pkg, ups, top=True)})
                    if hcase["mode"] == "concurrent":
                        tasks.append(one2())
                    else:
                        await one2()
                if tasks:
                    await asyncio.gather(*tasks)
            try:
                loop.run_until_complete(go())
            except Exception as ex:  # noqa
                events.append({"e": "crash", "error": f"{type(ex).__name__}: {ex}"[:300]})
        else:
            ident = {}
            seen = set()

            def shandler(request):
                ob = abstract_request(request)
                key = json.dumps([ob["vars"], ob["files"], ob["map"]]) + "|" + ob["extra"] + "|" + ob["ctype"]
                with lock:
                    cands = [c for c in ident.get(key, []) if c not in seen]
                    c = cands[0] if cands else 0
                    seen.add(c)
                    events.append({"e": "wire", "c": c, "obs": ob})
                return httpx.Response(200, json={"data": {"f": c}})
            cl = pkg.Client(url="http://x/graphql", http_client=httpx.Client(transport=httpx.MockTransport(shandler)), **ckw)
            for c, call in enumerate(calls, start=1):
                ident.setdefault(call["ident"], []).append(c)

            def srun(c, call, barrier):
                try:
                    kw = headers_for(call["hdr"], shared)
                    variables = var_objs[c]
                    if barrier:
                        barrier.wait(timeout=10)
                    r = cl.execute(query=QUERY, operation_name="Op", variables=variables, **kw)
                    mark({"e": "ret", "c": c, "got": r.json()["data"]["f"], "cvars": alpha_py(variables, pkg, ups, top=True)})
                except Exception as ex:  # noqa
                    mark({"e": "crash", "c": c, "error": f"{type(ex).__name__}: {ex}"[:300]})
            if hcase["mode"] == "concurrent":
                bar = threading.Barrier(len(calls))
                ths = [threading.Thread(target=srun, args=(c, call, bar)) for c, call in enumerate(calls, start=1)]
                for t in ths:
                    t.start()
                for t in ths:
                    t.join()
            else:
                for c, call in enumerate(calls, start=1):
                    srun(c, call, None)
        out_hist.append({"calls": calls, "mode": hcase["mode"], "events": events, "shared_clean": shared == shared_before,
                         "shared_after": shared})
    emit({"single": out_single, "histories": out_hist})


if __name__ == "__main__":
    main()
