SPECIFICATION TSpec
CONSTANTS MaxFrames = 4
 Kinds <- AllKinds
 InitPayloads <- BothPayloads
 VarModes <- AllVarModes
INVARIANT RootLifecycle
INVARIANT OneSpanPerFrame
INVARIANT SpanOrder
INVARIANT ExcOnlyWhereRaised
INVARIANT TypeOK
INVARIANT TerminalMapping
CHECK_DEADLOCK FALSE
