----------------------------- MODULE ResultModel -----------------------------
(* C01 / C05 (and the result side of C07, C08): what a generated result model must do with   *)
(* every response a conformant server can return for an operation.                            *)
(*   op      a query over Universe: one root field with a selection built from a menu         *)
(*   model   the abstract image of the generated pydantic classes for the root field:         *)
(*           a set of classes, each [typenames, fields], fields carrying required / nullable  *)
(*           / list shape / kind and the nested classes of composite fields                   *)
(*   The state machine is: Generate (model := image of op) ; Respond (the server picks a      *)
(*   runtime type and which nullable / conditional keys are null / absent) ; Validate (the    *)
(*   abstract semantics of pydantic validation on the model) ; optionally Corrupt first.      *)
(* In the exhaustive configuration model = Ideal(op), the image prescribed by the reference   *)
(* semantics; in ResultModel_Trace it is the projection of the REAL generated classes.         *)
EXTENDS Universe, FiniteSetsExt

CONSTANTS MaxAtoms,        \* atoms in the root field's selection set
          Nested,          \* allow one nested composite selection (friend / owner)
          Roots            \* root fields explored

\* ---- menu of atoms per parent type -------------------------------------------------------
OwnLeaf == [J |-> "name", I |-> "rank", A |-> "a1", B |-> "b1", C |-> "c1", D |-> "d1"]
LeafMenu(T) ==
  LET fs == {f \in DOMAIN FieldsOf[T] : ~IsCompositeField(T, f)} IN
  {Leaf(f) : f \in fs}
  \cup (IF HasField(T, "name") THEN {Fld("name", "x", "none", <<>>), Fld("name", "-", "include", <<>>),
                                     Fld("name", "y", "skip", <<>>)} ELSE {})
  \cup (IF HasField(T, "id") THEN {Fld("id", "-", "skip", <<>>), Fld("id", "theId", "none", <<>>)} ELSE {})
  \cup (IF HasField(T, "d1") THEN {Fld("d1", "dd", "include", <<>>)} ELSE {})
InlineMenu(T) ==
  {Inl(S, c, <<Leaf(OwnLeaf[S])>>) : S \in {X \in Objects \cup Interfaces : Overlaps(X, T)}, c \in {"none", "include"}}
  \cup (IF T # "U" THEN {Inl("-", c, <<Leaf(CHOOSE f \in DOMAIN FieldsOf[T] : f \in {"name", "d1"})>>) : c \in {"none", "skip"}} ELSE {})
SpreadMenu(T) == {Spr(fr, c) : fr \in {x \in FragNames : Overlaps(FragOn[x], T)}, c \in {"none", "include"}}
\* nested composite selections (one level): A.friend : J, D.owner : A!
SubMenu(T) == {<<Leaf("id")>>, <<Fld("name", "n", "none", <<>>), Inl("A", "none", <<Leaf("a1")>>)>>,
               <<Spr("FJ", "none")>>, <<Leaf("id"), Inl("C", "include", <<Leaf("c1")>>)>>}
OwnerMenu == {<<Leaf("a1")>>, <<Spr("FA", "none")>>, <<Spr("FA2", "none"), Leaf("id")>>, <<Leaf("rank"), Fld("tags", "t", "skip", <<>>)>>}
NestedMenu(T) ==
  IF ~Nested THEN {} ELSE
  (IF Overlaps("A", T) THEN {IF T = "A" THEN Fld("friend", "-", "none", s) ELSE Inl("A", "none", <<Fld("friend", "-", "none", s)>>) : s \in SubMenu("J")} ELSE {})
  \* an abstract-typed sub-field INSIDE a conditional fragment (inline with / without type condition): the generator copies
  \* the fields of such a fragment to mark them optional and has to add __typename to the sub-selection it SENDS
  \cup (IF Overlaps("A", T) THEN {Inl("A", "include", <<Fld("friend", "-", "none", <<Leaf("id")>>)>>)} ELSE {})
  \cup (IF T = "A" THEN {Inl("-", "skip", <<Fld("friend", "-", "none", <<Leaf("name")>>)>>)} ELSE {})
  \* selections nested inside an inline fragment on an interface the position's type implements: they are evaluated for
  \* the interface but belong to the class of the concrete type (finding F29)
  \cup (IF T = "A" THEN {Inl("I", "none", <<Inl("A", "none", <<Leaf("a1")>>)>>), Inl("J", "none", <<Spr("FA", "none")>>),
                         Inl("I", "include", <<Spr("FI", "none"), Leaf("id")>>)} ELSE {})
  \cup (IF Overlaps("D", T) THEN {IF T = "D" THEN Fld("owner", "-", c, s) ELSE Inl("D", "none", <<Fld("owner", "-", c, s)>>) : s \in OwnerMenu, c \in {"none", "include"}} ELSE {})
Menu(T) == LeafMenu(T) \cup InlineMenu(T) \cup SpreadMenu(T) \cup NestedMenu(T)

\* ---- legality of a selection set (the validation rules that matter here) ------------------
\* FieldsInSetCanMerge: one response key -> one field, leaf keys may repeat, composite keys may not (kept out)
AllEntries(T, sels) == UNION {Collect(t, sels, FALSE) : t \in Possible[T]}
Mergeable(T, sels) ==
  \A e1, e2 \in AllEntries(T, sels) : e1.key = e2.key => (e1.name = e2.name /\ e1.sels = <<>> /\ e2.sels = <<>>) \/ e1 = e2
\* canonical sequences: subsets of the menu in a fixed order (SetToSortSeq is not needed: choose any fixed order)
RECURSIVE SeqOf(_)
SeqOf(S) == IF S = {} THEN <<>> ELSE LET x == CHOOSE y \in S : TRUE IN <<x>> \o SeqOf(S \ {x})
\* the order of the atoms matters to the generator when two atoms reach the same response key (which definition of the
\* key wins): such sets are explored in both orders
AtomKeys(T, a) == {e.key : e \in UNION {CollectAtom(t, a, FALSE) : t \in Possible[T]}}
OrderSensitive(T, S) == \E a, b \in S : a # b /\ AtomKeys(T, a) \cap AtomKeys(T, b) # {}
Rev(s) == [i \in 1..Len(s) |-> s[Len(s) + 1 - i]]
SelSets(T) == LET sets == UNION {kSubset(k, Menu(T)) : k \in 1..MaxAtoms} IN
              {SeqOf(S) : S \in sets} \cup {Rev(SeqOf(S)) : S \in {X \in sets : OrderSensitive(T, X)}}
RootType(r) == FieldsOf["Query"][r].named
Ops == UNION {{[root |-> r, sels |-> s] : s \in {x \in SelSets(RootType(r)) : Mergeable(RootType(r), x)}} : r \in Roots}

\* ---- the image prescribed by the reference semantics -------------------------------------
\* classes of a position of static type T with selection sels: one class per possible runtime type
RECURSIVE Ideal(_, _)
IdealField(t, sels, key) ==
  LET n == NameOfKey(t, sels, key)
      ft == FieldsOf[t][n]
      cond == KeyConditional(t, sels, key) IN
  [key |-> key, required |-> ~cond, nullable |-> Nullable(ft.w) \/ cond, depth |-> ListDepth(ft.w),
   items |-> ItemNullable(ft.w), kind |-> KindOf(ft.named),
   sub |-> IF ft.named \in Composite THEN Ideal(ft.named, SubSels(t, sels, key)) ELSE {}]
Ideal(T, sels) ==
  {[typenames |-> IF T \in AbstractT THEN {t} ELSE {},
    fields |-> {IdealField(t, sels, k) : k \in Keys(t, sels)}] : t \in Possible[T]}

\* ---- abstract responses ------------------------------------------------------------------
\* mode: "full"   every selected key present and non-null (conditionals included)
\*       "nulls"  every nullable key null
\*       "off"    conditional keys absent (directive excluded them), the rest non-null
Modes == {"full", "nulls", "off"}
\* a response for a position: [t, present, nulls] + nested response of composite keys follows the same mode
Present(t, sels, mode) == IF mode = "off" THEN AlwaysKeys(t, sels) ELSE Keys(t, sels)
NullKeys(t, sels, mode) ==
  IF mode # "nulls" THEN {} ELSE {k \in Keys(t, sels) : Nullable(FieldsOf[t][NameOfKey(t, sels, k)].w)}

\* ---- abstract semantics of validating a response of runtime type t against a class set ----
\* result: "accept" | "dropped" (accepted but a returned key is not exposed) | "reject"
RECURSIVE Validate(_, _, _, _, _)
ClassFor(classes, T, t) == {c \in classes : IF T \in AbstractT THEN t \in c.typenames ELSE TRUE}
FieldOf(c, key) == CHOOSE f \in c.fields : f.key = key
Validate(classes, T, t, sels, mode) ==
  LET cs == ClassFor(classes, T, t) IN
  IF Cardinality(cs) # 1 THEN "reject"
  ELSE LET c == CHOOSE x \in cs : TRUE
           pres == Present(t, sels, mode)
           nulls == NullKeys(t, sels, mode)
           ckeys == {f.key : f \in c.fields}
           req == {f.key : f \in {x \in c.fields : x.required}} IN
       IF ~(req \subseteq pres) THEN "reject"
       ELSE IF \E k \in nulls \cap ckeys : ~FieldOf(c, k).nullable THEN "reject"
       ELSE LET subs == {k \in (pres \cap ckeys) \ nulls : IsCompositeField(t, NameOfKey(t, sels, k))}
                sub(k) == LET n == NameOfKey(t, sels, k)  T2 == FieldsOf[t][n].named IN
                          {Validate(FieldOf(c, k).sub, T2, t2, SubSels(t, sels, k), mode) : t2 \in Possible[T2]}
                results == UNION {sub(k) : k \in subs} IN
            IF "reject" \in results THEN "reject"
            ELSE IF ~(pres \subseteq ckeys) \/ "dropped" \in results THEN "dropped"
            ELSE "accept"

\* ---- state machine -----------------------------------------------------------------------
VARIABLES op, model, stage, rt, mode, corrupt, verdict
vars == <<op, model, stage, rt, mode, corrupt, verdict>>

T0 == RootType(op.root)
\* corruptions whose rejection the schema demands (C05): a non-null key nulled, an always-key removed,
\* a __typename outside the possible types
CorruptKinds == {"none", "null_nonnull", "drop_always", "bad_typename"}

Init == /\ op \in Ops /\ model = {} /\ stage = "start" /\ rt = "-" /\ mode = "-" /\ corrupt = "none" /\ verdict = "pending"
Generate == /\ stage = "start" /\ model' = Ideal(T0, op.sels) /\ stage' = "generated"
            /\ UNCHANGED <<op, rt, mode, corrupt, verdict>>
Respond == /\ stage = "generated" /\ rt' \in Possible[T0] /\ mode' \in Modes /\ corrupt' \in CorruptKinds
           /\ stage' = "responded" /\ UNCHANGED <<op, model, verdict>>

\* effect of a corruption on the root position of the response
CorruptedVerdict ==
  LET cs == ClassFor(model, T0, rt)
      c == CHOOSE x \in cs : TRUE
      nonnullKeys == {k \in Present(rt, op.sels, mode) : ~Nullable(FieldsOf[rt][NameOfKey(rt, op.sels, k)].w)
                                                           /\ ~KeyConditional(rt, op.sels, k)}
      always == AlwaysKeys(rt, op.sels) IN
  CASE corrupt = "bad_typename" -> IF T0 \in AbstractT THEN "reject" ELSE "n/a"
    [] corrupt = "null_nonnull" -> IF nonnullKeys = {} \/ Cardinality(cs) # 1 THEN "n/a"
                                   ELSE IF \A k \in nonnullKeys : k \in {f.key : f \in c.fields} /\ ~FieldOf(c, k).nullable
                                        THEN "reject" ELSE "accept"
    [] corrupt = "drop_always" -> IF always = {} \/ Cardinality(cs) # 1 THEN "n/a"
                                  ELSE IF \A k \in always : k \in {f.key : f \in {x \in c.fields : x.required}}
                                       THEN "reject" ELSE "accept"
    [] OTHER -> "n/a"
DoValidate == /\ stage = "responded" /\ stage' = "validated"
              /\ verdict' = IF corrupt = "none" THEN Validate(model, T0, rt, op.sels, mode) ELSE CorruptedVerdict
              /\ UNCHANGED <<op, model, rt, mode, corrupt>>
Next == Generate \/ Respond \/ DoValidate
Spec == Init /\ [][Next]_vars

\* ---- properties --------------------------------------------------------------------------
\* C01: every conformant response is accepted and every returned key is exposed
AcceptsConformant == (stage = "validated" /\ corrupt = "none") => verdict = "accept"
\* C05: every corruption the schema forbids is rejected
RejectsCorruption == (stage = "validated" /\ corrupt # "none") => verdict \in {"reject", "n/a"}
\* C01: at an abstract position the class is chosen by __typename and its literal contains the runtime type
TypenameClass == stage # "start" => (T0 \in AbstractT => \A t \in Possible[T0] : Cardinality(ClassFor(model, T0, t)) = 1)

\* C05, static: every field's declared type is exactly the image of its GraphQL type
RECURSIVE ImageOK(_, _, _)
ImageOK(classes, T, sels) ==
  \A t \in Possible[T] : \A c \in ClassFor(classes, T, t) : \A f \in c.fields :
     f.key = "__typename" \/
     (f.key \in Keys(t, sels) =>
        LET n == NameOfKey(t, sels, f.key)  ft == FieldsOf[t][n]  cond == KeyConditional(t, sels, f.key) IN
        /\ f.nullable = (Nullable(ft.w) \/ cond)
        /\ f.required = ~cond
        /\ f.depth = ListDepth(ft.w) /\ f.items = ItemNullable(ft.w)
        /\ f.kind = KindOf(ft.named)
        /\ (ft.named \in Composite => ImageOK(f.sub, ft.named, SubSels(t, sels, f.key))))
AnnotationIsImage == stage # "start" => ImageOK(model, T0, op.sels)
=============================================================================
