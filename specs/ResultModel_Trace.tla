-------------------------- MODULE ResultModel_Trace --------------------------
(* Artifact traces for ResultModel: the first (and only) logged event of a trace carries an     *)
(* operation (as enumerated by TLC) and the PROJECTION of the pydantic classes the real         *)
(* generator emitted for its root field.  From there the spec's own nondeterministic Respond /  *)
(* DoValidate steps explore EVERY abstract response (runtime type x null / conditional mode x   *)
(* corruption) of that real artifact, and the invariants AcceptsConformant, RejectsCorruption,  *)
(* TypenameClass, AnnotationIsImage are evaluated in every state.                               *)
EXTENDS ResultModel, Json, IOUtils, TLCExt

Traces == JsonDeserialize(IOEnv.TRACE_FILE)
N == Len(Traces)
TraceRoots == {"j", "i", "u", "us", "js", "a", "aList", "d", "mat"}

VARIABLE tid
tvars == <<vars, tid>>
ToSet(s) == {s[i] : i \in DOMAIN s}

\* JSON -> the spec's model values
RECURSIVE ClassesOf(_)
FieldRec(f) == [key |-> f.key, required |-> f.required, nullable |-> f.nullable, depth |-> f.depth,
                items |-> f.items, kind |-> f.kind, sub |-> ClassesOf(f.sub)]
ClassesOf(cs) == {[typenames |-> ToSet(cs[i].typenames), fields |-> {FieldRec(cs[i].fields[j]) : j \in DOMAIN cs[i].fields}]
                  : i \in DOMAIN cs}

TraceInit ==
  /\ tid \in 1..N
  /\ op = [root |-> Traces[tid].op.root, sels |-> Traces[tid].op.sels]
  /\ model = ClassesOf(Traces[tid].model.sub)
  /\ stage = "generated" /\ rt = "-" /\ mode = "-" /\ corrupt = "none" /\ verdict = "pending"

TraceNext == (Respond \/ DoValidate) /\ UNCHANGED tid
TraceSpec == TraceInit /\ [][TraceNext]_tvars

\* the root field itself: Optional iff the schema says nullable, list shape as declared
RootImage ==
  LET ft == FieldsOf["Query"][op.root]  m == Traces[tid].model IN
  /\ m.nullable = Nullable(ft.w) /\ m.depth = ListDepth(ft.w) /\ m.items = ItemNullable(ft.w) /\ m.required

ASSUME \A t \in 1..N : TLCSet(t, {})
\* total verdicts: instead of stopping at the first violated invariant, every state records which properties
\* fail for its trace (with the witness response); the post-condition prints one line per failing trace
Failed ==
  (IF ~AcceptsConformant THEN {<<"AcceptsConformant", rt, mode, verdict>>} ELSE {})
  \cup (IF ~RejectsCorruption THEN {<<"RejectsCorruption", rt, mode, corrupt>>} ELSE {})
  \cup (IF ~TypenameClass THEN {<<"TypenameClass", "-", "-", "-">>} ELSE {})
  \cup (IF ~AnnotationIsImage THEN {<<"AnnotationIsImage", "-", "-", "-">>} ELSE {})
  \cup (IF ~RootImage THEN {<<"RootImage", "-", "-", "-">>} ELSE {})
Judge == TLCSet(tid, TLCGet(tid) \cup Failed)
Report == \A t \in 1..N : TLCGet(t) = {} \/ PrintT(<<"FAILED", t, TLCGet(t)>>)

=============================================================================
