SPECIFICATION TraceSpec
CONSTANTS MaxFrames <- TraceMax
  Kinds <- TraceKinds
  InitPayloads <- TracePayloads
  VarModes <- TraceVarModes
INVARIANT InitFirst
INVARIANT SilentUntilAck
INVARIANT NoSubscribeWithoutAck
INVARIANT ExactlyOneSubscribe
INVARIANT YieldsAreNextDataInOrder
INVARIANT OnePongPerPing
INVARIANT TerminalMapping
INVARIANT CloseOnlyOnComplete
PROPERTY NoSendAfterEnd
PROPERTY AppendOnly
CONSTRAINT Reached
POSTCONDITION Accepted
CHECK_DEADLOCK FALSE
