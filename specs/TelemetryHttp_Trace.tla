------------------------- MODULE TelemetryHttp_Trace -------------------------
(* Trace validation for TelemetryHttp: execute() of a sync / async OpenTelemetry client with a recording tracer.           *)
(* Logged:  case(body, transport)  open(kind, root)  post(open)  close(kind, keys, exc)  ret(outcome)                       *)
EXTENDS TelemetryHttp, Json, IOUtils, TLCExt, SequencesExt

Traces == JsonDeserialize(IOEnv.TRACE_FILE)
N == Len(Traces)
ASSUME \A t \in 1..N : TLCSet(t, 0)
AllBodies == {"json", "multipart"}
AllTransports == {"response", "transport_error"}
VARIABLES tid, l
tvars == <<vars, tid, l>>
Ev == Traces[tid][l]
Has == l <= Len(Traces[tid])
Take == l' = l + 1 /\ tid' = tid

TraceInit ==
  /\ tid \in 1..N /\ l = 2 /\ Traces[tid][1].e = "case"
  /\ body = Traces[tid][1].body /\ transport = Traces[tid][1].transport
  /\ pc = "start" /\ root = "none" /\ child = "none" /\ childKind = "-" /\ childKeys = {} /\ posts = 0 /\ outcome = "running"
T_OpenRoot == Has /\ Ev.e = "open" /\ Ev.root /\ Take /\ OpenRoot
T_OpenChild == Has /\ Ev.e = "open" /\ ~Ev.root /\ Ev.parent_is_root /\ Take /\ OpenChild /\ childKind' = Ev.kind
\* the request reaches httpx while exactly root and child are open
T_Send == Has /\ Ev.e = "post" /\ Ev.open = 2 /\ Take /\ Send
T_CloseChild == /\ Has /\ Ev.e = "close" /\ ~Ev.root /\ Take /\ CloseChild
                /\ Ev.kind = childKind /\ ToSet(Ev.keys) = childKeys /\ Ev.exc = (child' = "closed_exc")
T_CloseRoot == /\ Has /\ Ev.e = "close" /\ Ev.root /\ Take /\ CloseRoot
               /\ ToSet(Ev.keys) = {"component"} /\ Ev.exc = (root' = "closed_exc")
T_Ret == Has /\ Ev.e = "ret" /\ Take /\ pc = "done" /\ Ev.outcome = outcome /\ UNCHANGED vars
TraceNext == T_OpenRoot \/ T_OpenChild \/ T_Send \/ T_CloseChild \/ T_CloseRoot \/ T_Ret
TraceSpec == TraceInit /\ [][TraceNext]_tvars
Reached == TLCSet(tid, IF l > TLCGet(tid) THEN l ELSE TLCGet(tid))
Accepted ==
  LET bad == {t \in 1..N : TLCGet(t) # Len(Traces[t]) + 1} IN
  /\ \A t \in bad : PrintT(<<"REJECTED", t, TLCGet(t)>>)
  /\ bad = {}
=============================================================================
