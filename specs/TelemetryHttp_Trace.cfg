SPECIFICATION TraceSpec
CONSTANTS Bodies <- AllBodies
 Transports <- AllTransports
INVARIANT Nested
INVARIANT OneRequest
INVARIANT AllEnded
INVARIANT ResponseReturned
PROPERTY SentInsideSpans
CONSTRAINT Reached
POSTCONDITION Accepted
CHECK_DEADLOCK FALSE
