----------------------------- MODULE Determinism -----------------------------
(* C10 -- generation is deterministic and idempotent.                                                                  *)
(* A run happens in an environment the input does not control: the interpreter's hash seed (= the iteration order of     *)
(* every Python set / frozenset of strings), the order in which files were created in their directory, and what the      *)
(* target already holds.  The generator has a fixed list of EMISSION POINTS where an unordered collection reaches the     *)
(* emitted text; each is either order-normalised (sorted(), isort, explicit key) or not.                                  *)
EXTENDS Naturals, Sequences, FiniteSets, TLC

CONSTANTS Inputs,          \* input ids
          Uses,            \* input -> the emission points at which THIS input carries a collection of >= 2 elements
          Points,          \* emission point -> "sorted" | "set" (iterated in hash order) | "listing" (directory order)
          Seeds, FileOrders, Targets, MaxRuns

PointNames == DOMAIN Points
Envs == [seed : Seeds, order : FileOrders, target : Targets]
\* what one emission point contributes to the output under an environment
Token(p, env) == CASE Points[p] = "sorted" -> "canonical"
                   [] Points[p] = "set" -> <<"hash-order", env.seed>>
                   [] Points[p] = "listing" -> <<"dir-order", env.order>>
Output(i, env) == [p \in Uses[i] |-> Token(p, env)]

VARIABLES input, runs     \* runs: sequence of [env, out]
vars == <<input, runs>>
Init == input \in Inputs /\ runs = <<>>
Run(env) == /\ Len(runs) < MaxRuns
            /\ (env.target = "existing" => runs # <<>>)            \* regenerating needs a previous generation
            /\ runs' = Append(runs, [env |-> env, out |-> Output(input, env)])
            /\ UNCHANGED input
Next == \E env \in Envs : Run(env)
Spec == Init /\ [][Next]_vars

\* byte-identical output whatever the environment
Deterministic == \A a, b \in 1..Len(runs) : runs[a].out = runs[b].out
\* every emission point is order-normalised (the design rule that implies Deterministic)
AllNormalised == \A p \in PointNames : Points[p] = "sorted"
=============================================================================
