"""In-package driver for C08: inspect the generated fragments module and the classes of each operation field."""
import ast
import json
import os

import httpx
import pydantic
from graphql import build_schema, graphql_sync
from typing import get_args, get_origin, Literal, Union, Annotated

from .util import load_payload, emit, import_pkg
from .result import unannot, unopt
from ..universe import gamma


def classes_of(ann):
    cur, _ = unopt(ann)
    while get_origin(unannot(cur)) in (list,):
        cur, _ = unopt(get_args(unannot(cur))[0])
    cur = unannot(cur)
    if get_origin(cur) is Union:
        return [unannot(x) for x in get_args(cur)]
    return [cur]


def class_type(cls, T):
    fi = cls.model_fields.get("typename__")
    if fi is None:
        return T
    lits = set(get_args(unannot(fi.annotation)))
    if T in lits:
        return T
    for t in ("I", "A", "J", "B"):
        if lits == {t}:
            return t
    return "?" + ",".join(sorted(lits))


def main():
    P = load_payload()
    out = {"loads": True, "error": None}
    jobdir = os.environ.get("VERIF_JOBDIR")
    try:
        pkg = import_pkg(P["package"])
    except Exception as ex:  # noqa
        emit({"loads": False, "error": f"{type(ex).__name__}: {ex}"[:400]})
        return
    frag_names = P["frag_names"]
    fpath = os.path.join(jobdir, P["package"], "fragments.py")
    order = []
    frag_classes = {}
    if os.path.exists(fpath):
        tree = ast.parse(open(fpath).read())
        order = [n.name for n in tree.body if isinstance(n, ast.ClassDef) and n.name in frag_names]
        fm = import_pkg(P["package"] + ".fragments")
        frag_classes = {n: getattr(fm, n) for n in order}
    out["order"] = order
    out["frag_bases"] = {n: [b.__name__ for b in c.__bases__ if b.__name__ in frag_names] for n, c in frag_classes.items()}
    schema = build_schema(gamma.SDL)
    ops_out = []
    hc = httpx.Client(transport=httpx.MockTransport(lambda req: httpx.Response(200, json={"data": graphql_sync(
        schema, json.loads(req.content)["query"], root_value=ROOT[0]).data})))
    client = pkg.Client(url="http://x", http_client=hc)
    for k, op in enumerate(P["ops"], start=1):
        mod = import_pkg(f"{P['package']}.op_{k}")
        root_cls = getattr(mod, f"Op{k}")
        fields_out = []
        res_by_rt = {}
        for rt in ("A", "B"):
            ROOT[0] = {"j": gamma.make_obj(rt, "full"), "i": gamma.make_obj(rt, "full"), "a": gamma.make_obj("A", "full")}
            try:
                res_by_rt[rt] = (getattr(client, f"op_{k}")(), None)
            except Exception as ex:  # noqa
                res_by_rt[rt] = (None, f"{type(ex).__name__}: {ex}"[:300])
        for i, fld in enumerate(op, start=1):
            key = f"x{i}"
            fi = [f for n, f in root_cls.model_fields.items() if (f.alias or n) == key][0]
            cls_list = classes_of(fi.annotation)
            per_class = []
            for c in cls_list:
                per_class.append([class_type(c, fld["T"]), sorted(b.__name__ for b in c.__bases__ if b.__name__ in frag_names),
                                  c.__name__])
            inst = []
            for rt, (res, err) in res_by_rt.items():
                if res is None:
                    inst.append({"rt": rt, "error": err})
                    continue
                obj = getattr(res, [n for n, f in root_cls.model_fields.items() if (f.alias or n) == key][0])
                data = hc_last_data(schema, client, k, rt, key)
                rec = {"rt": rt if fld["T"] != "A" else "A", "cls": type(obj).__name__, "isinstance": {}, "validates": {}}
                for fn, fc in frag_classes.items():
                    rec["isinstance"][fn] = isinstance(obj, fc)
                for fn in fld["direct_exact"]:
                    fc = frag_classes.get(fn)
                    if fc is None:
                        rec["validates"][fn] = "no_class"
                        continue
                    try:
                        fc.model_validate(obj.model_dump(by_alias=True))
                        rec["validates"][fn] = True
                    except Exception as ex:  # noqa
                        rec["validates"][fn] = f"{type(ex).__name__}"
                inst.append(rec)
            fields_out.append({"classes": per_class, "instances": inst})
        ops_out.append(fields_out)
    out["ops"] = ops_out
    emit(out)


ROOT = [None]


def hc_last_data(*a):
    return None


if __name__ == "__main__":
    main()
