------------------------------ MODULE Names_MC ------------------------------
EXTENDS Names, Json, IOUtils
\* (1) every name over a reduced alphabet up to a length bound; (2) an explicit list (keywords, soft keywords, pydantic
\* attribute names, hand-picked shapes) read from a file written by the harness
Alphabet == {"i", "f", "s", "n", "I", "S", "1", "_"}
MaxLen == IF IOEnv.MAXLEN = "5" THEN 5 ELSE IF IOEnv.MAXLEN = "4" THEN 4 ELSE 3
EnumNames == {n \in UNION {[1..k -> Alphabet] : k \in 1..MaxLen} : ~IsD(n[1])}
Lists == JsonDeserialize(IOEnv.LISTS_FILE)
ListNames == ToSet(Lists.names)
AllNames == IF IOEnv.NAMESET = "list" THEN ListNames ELSE EnumNames
KW == ToSet(Lists.keywords)
RES == ToSet(Lists.reserved)
\* export: the mapping and the laws for every name and flag combination
Rows == LET ns == SetToSeq(AllNames) IN
  [i \in 1..Len(ns) |->
     [name |-> ns[i],
      out |-> [f \in {"snake_trim_res", "snake", "plain_trim_res", "plain", "snake_res"} |->
                 LET sn == f \in {"snake_trim_res", "snake", "snake_res"}  tr == f \in {"snake_trim_res", "plain_trim_res"}
                     rs == f \in {"snake_trim_res", "plain_trim_res", "snake_res"} IN
                 [py |-> Process(ns[i], sn, tr, rs), lawful |-> Lawful(ns[i], sn, tr, rs), laws |-> Laws(ns[i], sn, tr, rs)]]]]
ASSUME IOEnv.OUT_FILE = "" \/ JsonSerialize(IOEnv.OUT_FILE, Rows)
NoDev == {}
AsBuilt == {"silent_merge"}
\* colliding pairs within one scope (exported for the planted-name generation leg)
PairLen == IF IOEnv.PAIRLEN = "3" THEN 3 ELSE 2
PairNames == {n \in AllNames : Len(n) <= PairLen}
PlantSet == IF IOEnv.NAMESET = "list" THEN AllNames ELSE PairNames
PairRows == LET ps == SetToSeq({p \in PairNames \X PairNames : p[1] # p[2] /\
                                   (Collide(p[1], p[2], TRUE, TRUE, TRUE) \/ Collide(p[1], p[2], FALSE, TRUE, TRUE)
                                    \/ Collide(p[1], p[2], TRUE, FALSE, FALSE) \/ Collide(p[1], p[2], FALSE, FALSE, FALSE))}) IN
  [i \in 1..Len(ps) |-> [a |-> ps[i][1], b |-> ps[i][2],
                         fields_snake |-> Collide(ps[i][1], ps[i][2], TRUE, TRUE, TRUE), fields_plain |-> Collide(ps[i][1], ps[i][2], FALSE, TRUE, TRUE),
                         ops |-> Collide(ps[i][1], ps[i][2], TRUE, FALSE, FALSE), enum |-> Collide(ps[i][1], ps[i][2], FALSE, FALSE, FALSE)]]
ASSUME IOEnv.PAIRS_FILE = "" \/ JsonSerialize(IOEnv.PAIRS_FILE, PairRows)
=============================================================================
