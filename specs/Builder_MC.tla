----------------------------- MODULE Builder_MC -----------------------------
EXTENDS Builder
OneAlias == {"a1"}
TwoAliases == {"a1", "a2"}
\* printed once per finished history (tuples/records of simple values; parsed by the harness)
Export == (Len(hist) >= 1 /\ cur = <<>>) => PrintT(<<"H", hist, docs>>)
=============================================================================
