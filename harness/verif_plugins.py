"""Plugins used only by the C15 check: one that overrides no hook, two that leave an ordered mark in __init__.py."""
from ariadne_codegen.plugins.base import Plugin


class IdentityPlugin(Plugin):
    pass


class TagAPlugin(Plugin):
    def generate_init_code(self, generated_code: str) -> str:
        return generated_code + "# tagA\n"


class TagBPlugin(Plugin):
    def generate_init_code(self, generated_code: str) -> str:
        return generated_code + "# tagB\n"
