SPECIFICATION TraceSpec
CONSTANTS PluginLists <- TLists
 OpKinds <- TKinds
 Deviations <- AsBuilt
INVARIANT Loads
INVARIANT HookOrder
INVARIANT ShorterIsProjectionK
INVARIANT ExtractMovesStrings
INVARIANT ForwardRefsOnlyMoveImports
INVARIANT NoReimportsOnlyInit
INVARIANT IdentityNoChange
CONSTRAINT Reached
POSTCONDITION Accepted
CHECK_DEADLOCK FALSE
