---------------------------- MODULE TelemetryHttp ----------------------------
(* Beyond the listed properties: the spans of one HTTP call of the OpenTelemetry base clients                             *)
(* (_execute_with_telemetry -> _execute_json_with_telemetry | _execute_multipart_with_telemetry), sync and async.          *)
(* One action per `with` entry / exit and per step in between.                                                             *)
EXTENDS Naturals, Sequences, FiniteSets, TLC

CONSTANTS Bodies,        \* "json" (no Upload in the variables) | "multipart"
          Transports     \* "response" (httpx returns a response, whatever its status) | "transport_error" (httpx raises)

VARIABLES body, transport,     \* the case (fixed by Init)
          pc,                  \* "start" | "root_open" | "child_open" | "sent" | "child_closed" | "done"
          root, child,         \* "none" | "open" | "closed" | "closed_exc"
          childKind, childKeys,
          posts,               \* number of requests handed to httpx
          outcome              \* "running" | "response" | "raised"
vars == <<body, transport, pc, root, child, childKind, childKeys, posts, outcome>>

Init == /\ body \in Bodies /\ transport \in Transports
        /\ pc = "start" /\ root = "none" /\ child = "none" /\ childKind = "-" /\ childKeys = {} /\ posts = 0 /\ outcome = "running"
\* with self.tracer.start_as_current_span(self.root_span_name, context=self.root_context) as root_span
OpenRoot == pc = "start" /\ pc' = "root_open" /\ root' = "open"
            /\ UNCHANGED <<body, transport, child, childKind, childKeys, posts, outcome>>
\* _process_variables, then the json / multipart helper opens its span and sets the attributes
OpenChild == /\ pc = "root_open" /\ pc' = "child_open" /\ child' = "open"
             /\ childKind' = (IF body = "json" THEN "json request" ELSE "multipart request")
             /\ childKeys' = {"component", "query", "operationName", "variables"} \cup (IF body = "multipart" THEN {"map"} ELSE {})
             /\ UNCHANGED <<body, transport, root, posts, outcome>>
\* self.http_client.post(...)
Send == /\ pc = "child_open" /\ pc' = "sent" /\ posts' = posts + 1
        /\ outcome' = (IF transport = "response" THEN "response" ELSE "raised")
        /\ UNCHANGED <<body, transport, root, child, childKind, childKeys>>
CloseChild == /\ pc = "sent" /\ pc' = "child_closed"
              /\ child' = (IF outcome = "raised" THEN "closed_exc" ELSE "closed")
              /\ UNCHANGED <<body, transport, root, childKind, childKeys, posts, outcome>>
CloseRoot == /\ pc = "child_closed" /\ pc' = "done"
             /\ root' = (IF outcome = "raised" THEN "closed_exc" ELSE "closed")
             /\ UNCHANGED <<body, transport, child, childKind, childKeys, posts, outcome>>
Next == OpenRoot \/ OpenChild \/ Send \/ CloseChild \/ CloseRoot
Spec == Init /\ [][Next]_vars

\* ---- properties ---------------------------------------------------------------------------------------------------
\* the child span lives inside the root span (LIFO)
Nested == (child = "open" => root = "open") /\ (root \in {"closed", "closed_exc"} => child \in {"closed", "closed_exc"})
\* the request goes out while both spans are open, exactly once
SentInsideSpans == [][posts' # posts => (root = "open" /\ child = "open" /\ posts' = posts + 1)]_vars
OneRequest == posts <= 1 /\ (pc = "done" => posts = 1)
\* both spans are ended when the call is over, with the exception recorded iff the transport raised
AllEnded == pc = "done" => /\ root = (IF transport = "response" THEN "closed" ELSE "closed_exc")
                            /\ child = (IF transport = "response" THEN "closed" ELSE "closed_exc")
\* a response of any status is returned to the caller: classification happens later (get_data), outside the spans
ResponseReturned == pc = "done" => (outcome = "response") = (transport = "response")
=============================================================================
