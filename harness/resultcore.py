"""Shared core of the result-model checks (C01, C05, C08 ...): TLC enumerates operations over the Universe,
gamma renders them, the real generator is run (batched, one subprocess per package), the in-package driver
projects the generated classes (alpha) and drives them, and ResultModel_Trace judges the projected artifacts."""
from __future__ import annotations

import json
from pathlib import Path

from .common import (Machinery, run_tlc, tlc_must_pass, pmap, NCPU, printed_tuples, _no_null)
from .gen import write_job, generate, run_in_pkg
from .universe import gamma


def enumerate_ops(work, maxatoms: int, roots: str, nested: bool, invs=True, coverage=False):
    out = work.dir / f"ops_{maxatoms}_{roots}.json"
    cfg = (f"SPECIFICATION Spec\nCONSTANTS MaxAtoms = {maxatoms}\n Nested = {'TRUE' if nested else 'FALSE'}\n Roots <- {roots}\n"
           + ("INVARIANT AcceptsConformant\nINVARIANT RejectsCorruption\nINVARIANT TypenameClass\nINVARIANT AnnotationIsImage\n" if invs else "")
           + "CHECK_DEADLOCK FALSE\n")
    res = run_tlc("ResultModel_MC", cfg, work.sub("tlc_ops"), env={"OUT_FILE": str(out)}, timeout=3000, coverage=coverage)
    tlc_must_pass(res, f"ResultModel_MC MaxAtoms={maxatoms} {roots}")
    ops = json.loads(out.read_text())
    return ops, res


def name_ops(ops, start=0):
    named = []
    for i, op in enumerate(ops, start=start):
        d = f"{i:05d}"
        named.append({"name": "op" + d, "module": "op_" + d, "cls": "Op" + d, "op": op})
    return named


def _gen_batch(work, tag, items, options, frags=None, extra_files=None):
    job = work.dir / f"job_{tag}"
    q = gamma.render_queries([(it["name"], it["op"]) for it in items], frags=frags)
    write_job(job, schema=gamma.SDL, queries=q, package="gclient", options=options, files=extra_files)
    r = generate(job)
    return job, r


def generate_batches(work, items, options, batch=40, tag="b", sort_key=None):
    """Returns (good: list of (job, items), failed: list of (item, result)).  A failing batch is bisected so that
    exactly the operations that make generation fail are singled out."""
    order = sorted(items, key=sort_key) if sort_key else list(items)
    batches = [order[i:i + batch] for i in range(0, len(order), batch)]
    good, failed = [], []
    counter = [0]

    def attempt(b):
        counter[0] += 1
        t = f"{tag}{counter[0]}_{b[0]['name']}_{len(b)}"
        job, r = _gen_batch(work, t, b, options)
        return b, job, r

    todo = batches
    while todo:
        outs = pmap(attempt, todo)
        todo = []
        for b, job, r in outs:
            if r["exc_class"] is None:
                good.append((job, b))
            elif len(b) == 1:
                failed.append((b[0], r))
            else:
                h = len(b) // 2
                todo.extend([b[:h], b[h:]])
    return good, failed


def drive_batches(good, *, is_async=False, quick=True, corrupt=False, script="harness.pkg.result", work=None, options=None):
    """Drive every generated batch.  If a package cannot even be imported (one operation's module poisons the whole
    package), the batch is split, regenerated and retried, so that exactly the guilty operations are singled out;
    those get a record with `error`."""
    recs = {}

    def one(g):
        job, items = g
        try:
            o = run_in_pkg(job, script, {"package": "gclient", "ops": items, "async": is_async, "quick": quick,
                                         "corrupt": corrupt}, timeout=3000)
            return g, o["results"], None
        except Machinery as ex:
            return g, None, str(ex)

    todo = list(good)
    rounds = 0
    while todo:
        rounds += 1
        outs = pmap(one, todo)
        todo = []
        for (job, items), rs, err in outs:
            if rs is not None:
                for r in rs:
                    recs[r["name"]] = r
                continue
            if len(items) == 1 or work is None or rounds > 8:
                for it in items:
                    lines = [ln for ln in err.splitlines() if ln.strip()]
                    recs[it["name"]] = {"name": it["name"], "runs": [], "corruptions": [], "model": None,
                                        "error": "PackageImport: " + (lines[-1] if lines else "?")[:300]}
                continue
            h = len(items) // 2
            for part in (items[:h], items[h:]):
                g2, f2 = generate_batches(work, part, options or {}, batch=len(part), tag=f"r{rounds}_")
                todo.extend(g2)
                for it, r in f2:
                    recs[it["name"]] = {"name": it["name"], "runs": [], "corruptions": [], "model": None,
                                        "error": f"gen_crash:{r['exc_class']}: {r['exc_msg']}"[:300]}
    return recs


def artifact_traces(items, recs):
    """One artifact trace per operation whose classes could be projected."""
    traces, owners = [], []
    for it in items:
        r = recs.get(it["name"])
        if not r or not r.get("model"):
            continue
        traces.append({"op": it["op"], "model": r["model"]})
        owners.append(it)
    return traces, owners


def validate_artifacts(work, traces, chunk=400):
    """Run ResultModel_Trace over the artifact traces in parallel chunks.  Returns (TlcResults, failed: {index: [witness]})"""
    if not traces:
        return [], {}
    parts = [(i, traces[i:i + chunk]) for i in range(0, len(traces), chunk)]

    def one(p):
        off, trs = p
        d = work.sub(f"art{off}")
        tf = d / "traces.json"
        tf.write_text(json.dumps(_no_null(trs)))
        res = run_tlc("ResultModel_Trace", "ResultModel_Trace.cfg", d, workers=1, env={"TRACE_FILE": str(tf)}, timeout=3000)
        if "Error:" in res.out and "FAILED" not in res.out and not res.ok:
            tail = "\n".join(res.out.splitlines()[-40:])
            raise Machinery(f"ResultModel_Trace failed:\n{tail}")
        failed = {}
        for t in printed_tuples(res.out, "FAILED"):
            failed[off + t[1] - 1] = t[2]
        tf.unlink()
        return res, failed

    outs = pmap(one, parts, workers=min(NCPU, len(parts)))
    allf = {}
    for _, f in outs:
        allf.update(f)
    return [r for r, _ in outs], allf
