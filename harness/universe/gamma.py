"""gamma: abstract operations over the Universe (as exported by TLC) -> GraphQL text, resolvers, responses."""
from __future__ import annotations

import json
from pathlib import Path

SCHEMA_PATH = Path(__file__).with_name("schema.graphql")
SDL = SCHEMA_PATH.read_text()

FRAG_ON = {"FJ": "J", "FI": "I", "FA": "A", "FA2": "A", "FU": "U", "FD": "D", "FInl": "J", "FB": "B", "FAfr": "A", "FDo": "D", "FA3": "A"}
FRAG_TEXT = {
    "FJ": "fragment FJ on J {\n  id\n  name\n}",
    "FI": "fragment FI on I {\n  rank\n}",
    "FA": "fragment FA on A {\n  a1\n  tags\n}",
    "FA2": "fragment FA2 on A {\n  ...FA\n  color\n}",
    "FU": "fragment FU on U {\n  ... on A {\n    a1\n  }\n  ... on D {\n    d1\n  }\n}",
    "FD": "fragment FD on D {\n  d1\n}",
    "FInl": "fragment FInl on J {\n  id\n  ... on A {\n    a1\n  }\n}",
    "FB": "fragment FB on B {\n  b1\n}",
    "FAfr": "fragment FAfr on A {\n  friend {\n    id\n  }\n}",
    "FDo": "fragment FDo on D {\n  owner {\n    ...FAfr\n  }\n}",
    "FA3": "fragment FA3 on A {\n  ...FA2\n  rank\n}",
}
FRAG_DEPS = {"FA2": ["FA"], "FDo": ["FAfr"], "FA3": ["FA2"]}
POSSIBLE = {"J": ["A", "B", "C"], "I": ["A", "B"], "U": ["A", "D"], "A": ["A"], "B": ["B"], "C": ["C"], "D": ["D"]}
ROOT_TYPE = {"j": ("J", "T"), "i": ("I", "T!"), "u": ("U", "T"), "us": ("U", "[T!]!"), "js": ("J", "[T]"), "a": ("A", "T"),
             "aList": ("A", "[T!]"), "d": ("D", "T"), "mat": ("A", "[[T!]]")}
ABSTRACT = {"J", "I", "U"}


def _dir(cond):
    return {"none": "", "include": " @include(if: $inc)", "skip": " @skip(if: $skp)",
            # literal conditions (outside the TLC-enumerated universe; used by C01's literal-condition leg)
            "include_false": " @include(if: false)", "include_true": " @include(if: true)",
            "skip_true": " @skip(if: true)", "skip_false": " @skip(if: false)"}[cond]


def render_sels(sels, ind):
    pad = "  " * ind
    out = []
    for a in sels:
        if a["k"] == "f":
            head = (a["alias"] + ": " if a["alias"] != "-" else "") + a["name"] + _dir(a["cond"])
            if a["sels"]:
                out.append(f"{pad}{head} {{\n{render_sels(a['sels'], ind + 1)}\n{pad}}}")
            else:
                out.append(pad + head)
        elif a["k"] == "i":
            head = "..." + (f" on {a['on']}" if a["on"] != "-" else "") + _dir(a["cond"])
            out.append(f"{pad}{head} {{\n{render_sels(a['sels'], ind + 1)}\n{pad}}}")
        else:
            out.append(f"{pad}...{a['frag']}{_dir(a['cond'])}")
    return "\n".join(out)


def conds(sels):
    s = set()
    for a in sels:
        if a.get("cond", "none") != "none":
            s.add(a["cond"])
        if a.get("sels"):
            s |= conds(a["sels"])
    return s


def spreads(sels):
    s = set()
    for a in sels:
        if a["k"] == "s":
            s.add(a["frag"])
        if a.get("sels"):
            s |= spreads(a["sels"])
    return s


def render_op(name, op):
    cs = conds(op["sels"])
    vars_ = []
    if "include" in cs:
        vars_.append("$inc: Boolean!")
    if "skip" in cs:
        vars_.append("$skp: Boolean!")
    head = f"query {name}" + (f"({', '.join(vars_)})" if vars_ else "")
    return f"{head} {{\n  {op['root']} {{\n{render_sels(op['sels'], 2)}\n  }}\n}}"


def render_queries(named_ops, frags=None):
    """named_ops: list of (name, op).  All fragments of the universe are defined unless `frags` restricts them."""
    parts = [render_op(n, o) for n, o in named_ops]
    for f in (frags if frags is not None else FRAG_TEXT):
        parts.append(FRAG_TEXT[f])
    return "\n\n".join(parts) + "\n"


# ------------------------------------------------------------------ reference server data

def make_obj(t, mode, depth=0, salt=0):
    """A full object of runtime type t; mode 'nulls' makes every nullable field null."""
    nul = mode == "nulls"
    o = {"__typename": t, "id": f"{t}-{depth}-{salt}"}
    if t in ("A", "B", "C"):
        o["name"] = None if nul else f"name-{t}{salt}"
    if t in ("A", "B"):
        o["rank"] = 7 + salt
    if t == "A":
        o["a1"] = f"a1-{salt}"
        o["tags"] = ["x", "y"] if salt % 2 == 0 else []
        nxt = ["B", "C", "A"][(depth + salt) % 3]
        o["friend"] = None if (nul or depth >= 2) else make_obj(nxt, mode, depth + 1, salt)
        o["color"] = None if nul else ["RED", "in", "GREEN"][salt % 3]
        o["when"] = None if nul else "2020-01-02"
    if t == "B":
        o["b1"] = None if nul else 5
        o["score"] = 1.5
        o["flags"] = None if nul else [True, None, False]
    if t == "C":
        o["c1"] = None if nul else True
    if t == "D":
        o["d1"] = None if nul else 2.5
        o["owner"] = make_obj("A", mode, depth + 1, salt + 1)
    return o


def root_value(root, t, mode, n=1):
    """Root object for the reference executor: runtime type t at the root field, list length n."""
    named, w = ROOT_TYPE[root]
    if w in ("T", "T!"):
        v = make_obj(t, mode)
        if mode == "rootnull":
            v = None
    elif w == "[[T!]]":
        v = [[make_obj(t, mode, 0, k) for k in range(n)], None][: max(n, 1)] if n else []
        if mode == "rootnull":
            v = None
    else:
        types = POSSIBLE[named]
        v = [make_obj(types[(types.index(t) + k) % len(types)], mode, 0, k) for k in range(n)]
        if mode == "rootnull":
            v = None if w in ("[T]", "[T!]") else v
        if w == "[T]" and n >= 2 and mode == "nulls":
            v[1] = None
    return {root: v}


def features(op):
    """Abstract features of an operation, used to match known findings."""
    named, w = ROOT_TYPE[op["root"]]
    f = {"root": op["root"], "root_kind": "union" if named == "U" else ("interface" if named in ("J", "I") else "object"),
         "cond_fragment": False, "cond_field": False, "typeless_inline": False, "abstract_cond_in_abstract": False,
         "narrowing_abstract_fragment": False, "cond_mixin_spread": False,
         "spread": False, "nested": False, "alias": False}
    SUPER = {"I": {"J"}, "A": {"I", "J", "U"}, "B": {"I", "J"}, "C": {"J"}, "D": {"U"}, "J": set(), "U": set()}
    HAS_INLINE = {"FU", "FInl"}

    def walk(sels, T, top, cond_ctx=False):
        for a in sels:
            if a["k"] == "f":
                if a["cond"] != "none":
                    f["cond_field"] = True
                if a["alias"] != "-":
                    f["alias"] = True
                if a["sels"]:
                    f["nested"] = True
                    walk(a["sels"], {"friend": "J", "owner": "A"}[a["name"]], False)
            elif a["k"] == "i":
                if a["cond"] != "none":
                    f["cond_fragment"] = True
                if a["on"] == "-":
                    f["typeless_inline"] = True
                elif a["on"] in ABSTRACT and a["on"] != T:
                    f["abstract_cond_in_abstract"] = True
                    if a["on"] not in SUPER[T]:
                        f["narrowing_abstract_fragment"] = True
                walk(a["sels"], a["on"] if a["on"] != "-" else T, False, cond_ctx or a["cond"] != "none")
            else:
                f["spread"] = True
                if a["cond"] != "none":
                    f["cond_fragment"] = True
                on = FRAG_ON[a["frag"]]
                if on in ABSTRACT and on != T:
                    f["abstract_cond_in_abstract"] = True
                    if on not in SUPER[T]:
                        f["narrowing_abstract_fragment"] = True
                # the fragment becomes a base class of the class generated for its own type, which exists when that
                # type is the position's type or (abstract position) one of its sub-types
                SUB = {"J": {"I", "A", "B", "C"}, "I": {"A", "B"}, "U": {"A", "D"}}
                if (a["cond"] != "none" or cond_ctx) and on != "U" and a["frag"] not in HAS_INLINE and (on == T or on in SUB.get(T, ())):
                    f["cond_mixin_spread"] = True
    walk(op["sels"], named, True)
    # the same response key reached through two different atoms of one selection set (field merging)
    FRAG_SELS = {"FJ": ["id", "name"], "FI": ["rank"], "FA": ["a1", "tags"], "FA2": ["a1", "tags", "color"], "FU": ["a1", "d1"],
                 "FD": ["d1"], "FInl": ["id", "a1"], "FB": ["b1"], "FAfr": ["friend"], "FDo": ["owner"], "FA3": ["a1", "tags", "color", "rank"]}

    def keys_of(a):
        if a["k"] == "f":
            return [(a["alias"] if a["alias"] != "-" else a["name"], a["cond"] != "none")]
        if a["k"] == "i":
            return [(k, c or a["cond"] != "none") for x in a["sels"] for k, c in keys_of(x)]
        return [(k, a["cond"] != "none") for k in FRAG_SELS[a["frag"]]]

    def dups(sels):
        seen = {}
        for i, a in enumerate(sels):
            for k, c in keys_of(a):
                seen.setdefault(k, []).append((i, c))
        for k, occ in seen.items():
            if len({i for i, _ in occ}) > 1:
                f["dup_key"] = True
                if len({c for _, c in occ}) > 1:
                    f["dup_key_cond_mix"] = True
                    # which occurrence comes LAST in document order (the generator keeps the last definition of a key)
                    last = max(occ, key=lambda x: x[0])
                    f["dup_key_cond_last"] = f.get("dup_key_cond_last", False) or bool(last[1])
                    f["dup_key_uncond_last"] = f.get("dup_key_uncond_last", False) or not last[1]
        for a in sels:
            if a.get("sels"):
                dups(a["sels"])
    import hashlib
    f["op_id"] = hashlib.sha1(json.dumps(op, sort_keys=True).encode()).hexdigest()[:12]
    f["dup_key"] = False
    f["dup_key_cond_mix"] = False
    f["dup_key_cond_last"] = False
    f["dup_key_uncond_last"] = False
    dups(op["sels"])
    return f


def nontrivial(op):
    named, _ = ROOT_TYPE[op["root"]]
    fe = features(op)
    return named in ABSTRACT or fe["spread"] or fe["cond_field"] or fe["cond_fragment"] or fe["alias"] or fe["nested"] or fe["typeless_inline"]
