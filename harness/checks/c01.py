"""C01 -- result models accept and preserve every conformant response.

leg 1: TLC checks ResultModel on the ideal image (the invariants are satisfiable and non-vacuous) and ENUMERATES the
       operation space (root field x subsets of the selection menu) -- this is the case generator.
leg 2: every enumerated operation is rendered, the real generator is run, the generated method is called through
       MockTransport + graphql-core for a covering set of responses and the validated object is compared with the data.
leg 3(b): the real pydantic classes of every operation are projected to the abstract model and ResultModel_Trace lets
       TLC explore EVERY abstract response of that artifact (AcceptsConformant, TypenameClass, RootImage).
"""
import json

from ..common import Verdict, Machinery, seed
from .. import resultcore as rc
from ..universe import gamma

VARIANTS = {
    "sync_plain_snake": {"async_client": False},
    "async_plain_snake": {"async_client": True},
    "sync_otel_snake": {"async_client": False, "opentelemetry_client": True},
    "async_otel_nosnake": {"async_client": True, "opentelemetry_client": True, "convert_to_snake_case": False},
    "sync_plain_nosnake": {"async_client": False, "convert_to_snake_case": False},
}
C01_ARTIFACT = ("AcceptsConformant", "TypenameClass", "RootImage")


def plan(tier, work, v):
    q = tier == "quick"
    ops1, r1 = rc.enumerate_ops(work, 1, "AllRoots", True, coverage=q)
    v.add_tlc(r1, "ResultModel ideal image, MaxAtoms=1, all roots")
    ops2, r2 = rc.enumerate_ops(work, 2, "AllRoots", True)
    v.add_tlc(r2, "ResultModel ideal image, MaxAtoms=2, AllRoots")
    if q:
        for act in ("Generate", "Respond", "DoValidate"):
            if r1.coverage.get(f"ResultModel!{act}", (0, 0))[1] == 0:
                raise Machinery(f"vacuous: {act}")
    seen, ops = set(), []
    for op in ops1 + ops2:
        k = json.dumps(op, sort_keys=True)
        if k not in seen:
            seen.add(k)
            ops.append(op)
    if q:
        # quick: all 1-atom operations + a seeded third of the 2-atom ones at the roots j, u, a, d, a sixth at root i
        # (interface implementing an interface: finding F26 needed two atoms there) and a twelfth at the list / nested roots
        s = seed()
        every = {"j": 3, "u": 3, "a": 3, "d": 3, "i": 6}
        ops = [op for i, op in enumerate(ops) if len(op["sels"]) == 1 or (i + s) % every.get(op["root"], 12) == 0]
    return ops


def judge_runs(v, it, rec, variant, want=("c01",)):
    op = it["op"]
    feats = dict(gamma.features(op), variant=variant)
    sigs = {}
    for run in rec["runs"]:
        sig = None
        if not run.get("accepted"):
            first = (run.get("exc") or "").split("\n")
            kind = "missing" if "Field required" in run.get("exc", "") else ("none_not_allowed" if "should be a valid" in run.get("exc", "") else "other")
            sig = f"reject:{run['mode']}:{kind}"
        elif not run["dump_equal"]:
            sig = "not_preserved"
        elif not run["enum_ok"]:
            sig = "enum_member"
        elif not run["typename_ok"]:
            sig = "typename_class"
        if sig and sig not in sigs:
            sigs[sig] = run
    for sig, run in sigs.items():
        v.violation(feats, sig, {"operation": gamma.render_op(it["name"], op), "run": run})
    return bool(sigs)


def run(tier, work, replay=None):
    v = Verdict("C01", tier)
    q = tier == "quick"
    ops = plan(tier, work, v)
    if replay:
        want = {json.dumps(r["features"].get("op_key")) for r in json.loads(open(replay).read())}
    items = rc.name_ops(ops)
    total_runs = 0
    validated = 0
    for vi, (variant, options) in enumerate(VARIANTS.items()):
        sub = items if (vi == 0 or not q) else [it for k, it in enumerate(items) if (k + vi) % 9 == 0]
        if vi > 0 and not q:
            sub = [it for k, it in enumerate(items) if (k + vi) % 2 == 0]
        good, failed = rc.generate_batches(work, sub, options, tag=f"v{vi}_")
        for it, r in failed:
            v.violation(dict(gamma.features(it["op"]), variant=variant), f"gen_crash:{r['exc_class']}",
                        {"operation": gamma.render_op(it["name"], it["op"]), "message": r["exc_msg"]})
        recs = rc.drive_batches(good, is_async=options.get("async_client", False), quick=q, corrupt=False, work=work, options=options)
        for it in sub:
            rec = recs.get(it["name"])
            if rec is None:
                continue
            if rec.get("error"):
                v.violation(dict(gamma.features(it["op"]), variant=variant), "load_error:" + rec["error"].split(":")[0],
                            {"operation": gamma.render_op(it["name"], it["op"]), "error": rec["error"]})
                continue
            total_runs += len(rec["runs"])
            judge_runs(v, it, rec, variant)
        if vi == 0:
            traces, owners = rc.artifact_traces(sub, recs)
            rs, failed_art = rc.validate_artifacts(work, traces, chunk=120)
            for r in rs:
                v.add_tlc(r, "ResultModel_Trace (artifact)")
            for k, wit in failed_art.items():
                it = owners[k]
                names = sorted({w[0] + (":" + w[3] if w[0] == "AcceptsConformant" else "") for w in wit if w[0] in C01_ARTIFACT})
                for nm in names:
                    v.violation(dict(gamma.features(it["op"]), variant=variant), "artifact:" + nm,
                                {"operation": gamma.render_op(it["name"], it["op"]), "witnesses": [w for w in wit if w[0] in C01_ARTIFACT][:6]})
            validated = len(traces) - len([k for k, wit in failed_art.items() if any(w[0] in C01_ARTIFACT for w in wit)])
            for it in (sub[0], sub[len(sub) // 2], sub[-1]):
                rec = recs.get(it["name"]) or {}
                v.sample({"operation": gamma.render_op(it["name"], it["op"]), "abstract": it["op"],
                          "projected_model": rec.get("model"), "responses_driven": len(rec.get("runs", []))})
    # ---- literal conditions (@include(if: false), @skip(if: true), ...): not part of the TLC-enumerated universe (its
    #      conditions are variables); the responses the reference server gives must be accepted and preserved all the same
    def F(name, cond="none", sels=(), alias="-"):
        return {"k": "f", "name": name, "alias": alias, "cond": cond, "sels": list(sels)}

    def I(on, cond, sels):
        return {"k": "i", "on": on, "cond": cond, "sels": list(sels)}
    lit_ops = [{"root": "a", "sels": [F("id"), F("name", "include_false")]}, {"root": "a", "sels": [F("id"), F("rank", "skip_true")]},
               {"root": "a", "sels": [F("id"), F("a1", "include_true")]}, {"root": "a", "sels": [F("id"), F("tags", "skip_false")]},
               {"root": "a", "sels": [F("id"), I("A", "include_false", [F("a1"), F("tags")])]},
               {"root": "j", "sels": [F("id"), I("-", "skip_true", [F("name")])]},
               {"root": "a", "sels": [F("id"), F("friend", "include_false", [F("id")])]},
               {"root": "d", "sels": [F("d1", "include_false"), F("id", "skip_false")]},
               {"root": "aList", "sels": [F("a1", "skip_true"), F("rank", "include_true")]}]
    lit_items = rc.name_ops(lit_ops, start=90000)
    lgood, lfailed = rc.generate_batches(work, lit_items, {"async_client": False}, tag="lit_")
    for it, r in lfailed:
        v.violation({"variant": "sync_plain_snake", "literal_condition": True, "root": it["op"]["root"]}, f"gen_crash:{r['exc_class']}",
                    {"operation": gamma.render_op(it["name"], it["op"]), "message": r["exc_msg"]})
    lrecs = rc.drive_batches(lgood, is_async=False, quick=True, corrupt=False, work=work, options={"async_client": False})
    for it in lit_items:
        rec = lrecs.get(it["name"])
        if rec is None:
            continue
        if rec.get("error"):
            v.violation({"variant": "sync_plain_snake", "literal_condition": True}, "load_error:" + rec["error"].split(":")[0],
                        {"operation": gamma.render_op(it["name"], it["op"]), "error": rec["error"]})
            continue
        total_runs += len(rec["runs"])
        for run in rec["runs"]:
            if not run.get("accepted") or not run.get("dump_equal", True):
                v.violation({"variant": "sync_plain_snake", "literal_condition": True, "root": it["op"]["root"]},
                            "literal_condition:" + ("rejected" if not run.get("accepted") else "not_preserved"),
                            {"operation": gamma.render_op(it["name"], it["op"]), "run": run})
                break
    v.cov["literal_condition_operations"] = len(lit_items)
    v.cov["evaluations"] = total_runs
    v.cov["traces_validated_against_impl"] = validated
    v.cov["distinct_nontrivial"] = len([1 for op in ops if gamma.nontrivial(op)])
    v.cov["operations"] = len(ops)
    v.cov["rule"] = ("operations = root field x subsets (<= MaxAtoms) of the per-type selection menu, enumerated by TLC "
                     "(ResultModel!Ops); non-trivial = abstract-typed position, fragment, directive, alias or nested selection; "
                     "each driven with every runtime type x {full, nulls, conditionals off} x list lengths")
    v.cov["exhaustive"] = not q
    v.assumptions += ["graphql-core executes the received query as the reference server", "pydantic behaves as documented",
                      "model_dump(by_alias=True, exclude_unset=True) is the serialisation compared with the response"]
    return v.finish()
