"""In-package driver for C14: replay builder histories (TLC behaviours) into the generated builder + client."""
import asyncio
import importlib
import json
import sys

import httpx
from graphql import (build_schema, parse, validate, print_ast, execute_sync, FieldNode, InlineFragmentNode,
                     OperationDefinitionNode, default_field_resolver)

from .util import load_payload, emit, import_pkg

FT = {
    "Query.item": ("Query", "item"), "Query.items": ("Query", "items"), "Query.search": ("Query", "search"),
    "Query.node": ("Query", "node"), "Query.maybe": ("Query", "maybe"), "Query.me": ("Query", "me"), "Item.thumb": ("ItemFields", "thumb"), "Query.version": ("Query", "version"),
    "Item.id": ("ItemFields", "id"), "Item.displayName": ("ItemFields", "display_name"),
    "Item.createdAt": ("ItemFields", "created_at"), "Item.owner": ("ItemFields", "owner"),
    "Item.related": ("ItemFields", "related"), "Person.id": ("PersonFields", "id"),
    "Person.fullName": ("PersonFields", "full_name"), "Person.items": ("PersonFields", "items"), "Person.avatar": ("PersonFields", "avatar"),
    "Node.id": ("NodeInterface", "id"),
}
ATTRS = {"Item.id", "Item.displayName", "Item.createdAt", "Person.id", "Person.fullName", "Node.id"}
# argument values, distinguishable per node index i (GraphQL name -> (python kw, value maker, expected wire value))


def argvals(pkg, f, i, given):
    Color, Filter = pkg.Color, pkg.Filter
    table = {
        "Query.item": [("id", "id", f"id-{i}", f"id-{i}", True)],
        "Query.items": [("ids", "ids", [f"x{i}", f"y{i}"], [f"x{i}", f"y{i}"], True),
                        ("colors", "colors", [Color.RED, None, Color.GREEN], ["RED", None, "GREEN"], False),
                        ("filter", "filter", Filter(name_like=f"n{i}", tags=["t"]), {"nameLike": f"n{i}", "tags": ["t"]}, False)],
        "Query.search": [("text", "text", f"t{i}", f"t{i}", True), ("maxHits", "max_hits", 100 + i, 100 + i, False)],
        "Query.node": [("id", "id", f"nid-{i}", f"nid-{i}", True)],
        "Query.maybe": [("id", "id", f"mid-{i}", f"mid-{i}", False)],
        "Item.thumb": [("size", "size", 400 + i, 400 + i, False), ("format", "format", f"tf{i}", f"tf{i}", False)],
        "Item.related": [("firstN", "first_n", 200 + i, 200 + i, False),
                         ("filter", "filter", Filter(name_like=f"r{i}", color=Color.GREEN), {"nameLike": f"r{i}", "color": "GREEN"}, False)],
        "Person.avatar": [("size", "size", 300 + i, 300 + i, True), ("format", "format", f"fmt{i}", f"fmt{i}", False)],
        "Person.items": [("ids", "ids", [f"p{i}"], [f"p{i}"], True), ("since", "since", f"2020-01-{10 + i}", f"2020-01-{10 + i}", False)],
    }
    out = []
    for g, kw, val, wire, req in table.get(f, []):
        if req or g in given:
            out.append((g, kw, val, wire))
    return out


def build_op(pkg, mods, tree, saved, k):
    """Build the expression the way a user would: children first, then parent.fields(...) / parent.on(T, ...).
    Nodes whose src is (m, j) ARE the object built as node j of operation m (same Python object passed again)."""
    n = len(tree)
    objs = [None] * n
    expected_vals = {}
    # pass 1, in the order the user writes the calls: create each object and apply .alias()
    for i in range(n):
        nd = tree[i]
        src = nd.get("src") or [0, 0]
        if src != [0, 0]:
            for g, kw, val, wire in argvals(pkg, nd["f"], src[1], nd["given"]) if nd["f"] not in ATTRS else []:
                expected_vals[(i + 1, g)] = wire
            if nd["parent"] == 0:
                objs[i] = saved[(src[0], src[1])]
            continue
        cls_name, attr = FT[nd["f"]]
        holder = getattr(mods["custom_queries"], "Query") if cls_name == "Query" else getattr(mods["custom_fields"], cls_name)
        member = getattr(holder, attr)
        if nd["f"] in ATTRS:
            obj = member
        else:
            kws = {}
            for g, kw, val, wire in argvals(pkg, nd["f"], i + 1, nd["given"]):
                kws[kw] = val
                expected_vals[(i + 1, g)] = wire
            obj = member(**kws)
        if nd["alias"] != "-":
            obj = obj.alias(nd["alias"])
        objs[i] = obj
    # pass 2, bottom-up: attach sub-fields with fields(...) / on(T, ...)
    for i in range(n - 1, -1, -1):
        nd = tree[i]
        if (nd.get("src") or [0, 0]) != [0, 0]:
            continue
        obj = objs[i]
        kids = [j for j in range(n) if tree[j]["parent"] == i + 1]
        plain = [objs[j] for j in kids if tree[j]["frag"] == "-"]
        if plain:
            obj = obj.fields(*plain)
        seen = []
        for j in kids:
            fr = tree[j]["frag"]
            if fr != "-" and fr not in seen:
                seen.append(fr)
                obj = obj.on(fr, *[objs[k] for k in kids if tree[k]["frag"] == fr])
        objs[i] = obj
    for i in range(n):
        if tree[i]["parent"] == 0 and (tree[i].get("src") or [0, 0]) == [0, 0]:
            saved[(k, i + 1)] = objs[i]
    tops = [objs[i] for i in range(n) if tree[i]["parent"] == 0]
    return tops, expected_vals


def flatten(doc_ast):
    """Preorder list of fields of the single operation: name, alias, parent, frag, [(arg, var)]."""
    op = [d for d in doc_ast.definitions if isinstance(d, OperationDefinitionNode)][0]
    nodes = []

    def walk(selset, parent, frag):
        for sel in selset.selections:
            if isinstance(sel, FieldNode):
                args = []
                for a in sel.arguments or ():
                    v = a.value
                    args.append((a.name.value, getattr(getattr(v, "name", None), "value", None) if v.kind == "variable" else "@literal"))
                nodes.append({"name": sel.name.value, "alias": sel.alias.value if sel.alias else "-", "parent": parent,
                              "frag": frag, "args": args})
                idx = len(nodes)
                if sel.selection_set:
                    walk(sel.selection_set, idx, "-")
            elif isinstance(sel, InlineFragmentNode):
                walk(sel.selection_set, parent, sel.type_condition.name.value if sel.type_condition else "?")
    walk(op.selection_set, 0, "-")
    decls = [(vd.variable.name.value, print_ast(vd.type)) for vd in op.variable_definitions or ()]
    return op, nodes, decls


def main():
    P = load_payload()
    pkg = import_pkg(P["package"])
    is_async = P["async"]
    schema = build_schema(P["schema"])
    mods = {m: import_pkg(f"{P['package']}.{m}") for m in ("custom_fields", "custom_queries")}
    captured = {}

    def handler(request):
        captured["body"] = json.loads(request.content)
        return httpx.Response(200, json={"data": {"ok": True}})

    traces = []
    for h_i, hist in enumerate(P["histories"]):
        # a fresh process state per history: the class-level field objects are re-created
        mods["custom_fields"] = importlib.reload(mods["custom_fields"])
        mods["custom_queries"] = importlib.reload(mods["custom_queries"])
        trace = []
        saved = {}
        for k, tree in enumerate(hist):
            for nd in tree:
                src = nd.get("src") or [0, 0]
                if src != [0, 0]:
                    if nd["parent"] == 0:
                        trace.append({"e": "reuse", "m": src[0], "j": src[1]})
                    continue
                trace.append({"e": "add", "f": nd["f"], "parent": nd["parent"], "frag": nd["frag"], "alias": nd["alias"],
                              "given": sorted(nd["given"])})
            ev = {"e": "build", "op": k + 1}
            try:
                tops, expected_vals = build_op(pkg, mods, tree, saved, k + 1)
                captured.clear()
                if is_async:
                    async def go():
                        async with httpx.AsyncClient(transport=httpx.MockTransport(handler)) as hc:
                            c = pkg.Client(url="http://x/graphql", http_client=hc)
                            return await c.query(*tops, operation_name=f"Op{k + 1}")
                    asyncio.run(go())
                else:
                    with httpx.Client(transport=httpx.MockTransport(handler)) as hc:
                        c = pkg.Client(url="http://x/graphql", http_client=hc)
                        c.query(*tops, operation_name=f"Op{k + 1}")
                body = captured["body"]
                ev["query"] = body.get("query")
                ev["operation_name_ok"] = body.get("operationName") == f"Op{k + 1}"
                ast = parse(body["query"])
                errs = validate(schema, ast)
                ev["valid"] = not errs
                if errs:
                    ev["validation_errors"] = [e.message for e in errs][:4]
                op, nodes, decls = flatten(ast)
                dmap = {}
                dup = False
                for var, typ in decls:
                    dup = dup or var in dmap
                    dmap[var] = typ
                uses = [v for nd in nodes for _, v in nd["args"]]
                ev["vars_unique"] = (not dup) and len(uses) == len(set(uses)) and set(uses) == set(dmap) and "@literal" not in uses
                variables = body.get("variables") or {}
                vals_ok = set(variables) == set(dmap)
                canon_decls = []
                for i, nd in enumerate(nodes, start=1):
                    for arg, var in nd["args"]:
                        canon_decls.append([i, arg, dmap.get(var, "UNDECLARED")])
                        if (i, arg) not in expected_vals or variables.get(var, "@missing") != expected_vals[(i, arg)]:
                            vals_ok = False
                if len([1 for nd in nodes for _ in nd["args"]]) != len(expected_vals):
                    vals_ok = False
                ev["values_ok"] = bool(vals_ok) and ev["operation_name_ok"]
                ev["doc"] = {"nodes": [{"name": nd["name"], "alias": nd["alias"], "parent": nd["parent"], "frag": nd["frag"],
                                        "args": [a for a, _ in nd["args"]]} for nd in nodes],
                             "decls": canon_decls}
                ev["var_names"] = [[i, a, v] for i, nd in enumerate(nodes, start=1) for a, v in nd["args"]]
                # independent oracle: the server actually receives the caller's values at the right fields
                if not errs:
                    seen = {}
                    ev["executes"] = True
                    for prefer in ("Item", "Person"):
                        def resolver(src, info, _prefer=prefer, **kw):
                            kw = {a: b for a, b in kw.items() if not (a == "maxHits" and b == 10)}  # schema default
                            if kw:
                                seen[tuple(str(p) for p in info.path.as_list() if not isinstance(p, int))] = kw
                            s_ = str(info.return_type).replace("!", "")
                            many = s_.startswith("[")
                            s_ = s_.strip("[]")
                            if s_ in ("Item", "Person"):
                                return [{"__typename": s_}] if many else {"__typename": s_}
                            if s_ in ("Node", "SearchResult"):
                                return [{"__typename": "Item"}, {"__typename": "Person"}] if many else {"__typename": _prefer}
                            return "x"
                        res = execute_sync(schema, ast, variable_values=variables, field_resolver=resolver,
                                           type_resolver=lambda v_, *_: v_.get("__typename"))
                        if res.errors:
                            ev["executes"] = False
                            ev["exec_errors"] = [str(e)[:200] for e in res.errors][:3]
                            ev["values_ok"] = False
                    got = sorted(json.dumps(v, sort_keys=True, default=str) for v in seen.values())
                    want = {}
                    for (i, arg), wire in expected_vals.items():
                        want.setdefault(i, {})[arg] = wire
                    wanted = sorted(json.dumps(v, sort_keys=True) for v in want.values())
                    if got != wanted:
                        ev["values_ok"] = False
                        ev["resolver_saw"] = got[:4]
            except Exception as ex:  # noqa
                ev["crash"] = f"{type(ex).__name__}: {ex}"[:300]
                ev.update({"valid": False, "values_ok": False, "vars_unique": False, "doc": {"nodes": [], "decls": []}})
            trace.append(ev)
        traces.append(trace)
    emit({"traces": traces})


if __name__ == "__main__":
    main()
